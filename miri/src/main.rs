//! Driver run under `cargo +nightly miri run`. Miri owns thread scheduling (seeded by -Zmiri-seed, preemptive
//! at basic-block granularity), makes RandomState deterministic and reports data races. The driver compares
//! the results of the parallel code paths of graphrs under a real rayon pool, and of concurrent read-only
//! queries on one shared graph, with the single-threaded results.
use graphrs::algorithms::centrality::{betweenness, closeness};
use graphrs::algorithms::components;
use graphrs::algorithms::shortest_path::dijkstra;
use graphrs::{Edge, Graph, GraphSpecs};
use std::collections::BTreeMap;

fn lcg(s: &mut u64) -> u64 {
    *s = s.wrapping_mul(6364136223846793005).wrapping_add(1442695040888963407);
    *s >> 33
}

fn build(seed: u64, directed: bool) -> Graph<String, ()> {
    let specs = if directed { GraphSpecs::directed_create_missing() } else { GraphSpecs::undirected_create_missing() };
    let mut g: Graph<String, ()> = Graph::new(specs);
    let n = 22u64;
    let mut s = seed.wrapping_mul(0x9E3779B97F4A7C15) | 1;
    // a ring (so that everything is reachable) plus random chords, dyadic weights
    for i in 0..n {
        let w = (1 + lcg(&mut s) % 8) as f64 / 4.0;
        let _ = g.add_edge(Edge::with_weight(format!("n{}", i), format!("n{}", (i + 1) % n), w));
    }
    for _ in 0..14 {
        let (a, b) = (lcg(&mut s) % n, lcg(&mut s) % n);
        if a != b {
            let w = (1 + lcg(&mut s) % 8) as f64 / 4.0;
            let _ = g.add_edge(Edge::with_weight(format!("n{}", a), format!("n{}", b), w));
        }
    }
    g
}

fn results(g: &Graph<String, ()>) -> Vec<String> {
    let f = |m: std::collections::HashMap<String, f64>| -> String {
        let b: BTreeMap<String, f64> = m.into_iter().collect();
        b.iter().map(|(k, v)| format!("{}:{:016x};", k, v.to_bits())).collect()
    };
    let ap = dijkstra::all_pairs(g, true, None, None, false, false).unwrap();
    let mut apm: BTreeMap<String, BTreeMap<String, u64>> = BTreeMap::new();
    for (s, m) in ap {
        apm.insert(s, m.into_iter().map(|(t, i)| (t, i.distance.to_bits())).collect());
    }
    vec![format!("{:?}", apm), f(betweenness::betweenness_centrality(g, true, true).unwrap()), f(closeness::closeness_centrality(g, false, true).unwrap())]
}

fn reader(g: &Graph<String, ()>) -> String {
    let mut s = String::new();
    for x in g.get_all_node_names().into_iter().take(6) {
        let mut e: Vec<String> = g.get_edges_for_node(x.clone()).unwrap().iter().map(|e| format!("{}>{}", e.u, e.v)).collect();
        e.sort();
        s.push_str(&e.join(","));
    }
    let c = if g.specs.directed { components::strongly_connected_components(g) } else { components::connected_components(g) };
    s.push_str(&format!("{}", c.unwrap().len()));
    s
}

fn main() {
    let args: Vec<String> = std::env::args().collect();
    let seed: u64 = args.get(1).and_then(|s| s.parse().ok()).unwrap_or(1);
    let threads: usize = args.get(2).and_then(|s| s.parse().ok()).unwrap_or(2);
    let g = build(seed, seed % 2 == 0);
    let one = rayon::ThreadPoolBuilder::new().num_threads(1).build().unwrap();
    let reference = one.install(|| results(&g));
    let ref_reader = reader(&g);
    let pool = rayon::ThreadPoolBuilder::new().num_threads(threads).build().unwrap();
    // the parallel code paths under a real pool, while two caller threads query the same graph
    let ok = std::thread::scope(|sc| {
        let r1 = sc.spawn(|| reader(&g) == ref_reader);
        let r2 = sc.spawn(|| reader(&g) == ref_reader);
        let par = pool.install(|| results(&g));
        let a = r1.join().unwrap();
        let b = r2.join().unwrap();
        (par == reference, a && b)
    });
    if ok.0 && ok.1 {
        println!("C07MIRI OK seed={} threads={}", seed, threads);
    } else {
        println!("C07MIRI MISMATCH seed={} threads={} parallel_equal={} readers_equal={}", seed, threads, ok.0, ok.1);
        std::process::exit(1);
    }
}
