//! simrayon — a crate *named* `rayon` that graphrs compiles against unmodified
//! (substituted with `[patch.crates-io]`).  It reproduces rayon's observable
//! contract — split trees, work stealing, leaf execution order, ordered
//! collects, tree-shaped reductions — on one OS thread under a seeded PRNG, so
//! that one seed is one exactly repeatable schedule.  See `sim.rs`.
pub mod iter;
pub mod sim;

pub mod prelude {
    pub use crate::iter::{
        FromParallelIterator, IndexedParallelIterator, IntoParallelIterator, IntoParallelRefIterator,
        IntoParallelRefMutIterator, ParallelBridge, ParallelExtend, ParallelIterator,
    };
    pub use crate::slice::{ParallelSlice, ParallelSliceMut};
    pub use crate::str::ParallelString;
}

use iter::{IntoParallelIterator, ParallelIterator, Parts};

pub mod vec {
    use super::*;
    /// `rayon::vec::IntoIter`
    pub struct IntoIter<T> {
        pub(crate) vec: Vec<T>,
    }
    impl<T> ParallelIterator for IntoIter<T> {
        type Item = T;
        type Base = T;
        fn into_parts(self) -> Parts<T, impl Fn(usize, T, &mut dyn FnMut(T))> {
            Parts { base: self.vec, pipe: |_i: usize, x: T, sink: &mut dyn FnMut(T)| sink(x), ordered: true, min_len: 1, max_len: usize::MAX }
        }
    }
    impl<T> IntoParallelIterator for Vec<T> {
        type Iter = IntoIter<T>;
        type Item = T;
        fn into_par_iter(self) -> IntoIter<T> {
            IntoIter { vec: self }
        }
    }
    impl<T, const N: usize> IntoParallelIterator for [T; N] {
        type Iter = IntoIter<T>;
        type Item = T;
        fn into_par_iter(self) -> IntoIter<T> {
            IntoIter { vec: self.into_iter().collect() }
        }
    }
    impl<T> IntoParallelIterator for Option<T> {
        type Iter = IntoIter<T>;
        type Item = T;
        fn into_par_iter(self) -> IntoIter<T> {
            IntoIter { vec: self.into_iter().collect() }
        }
    }
    impl<T> IntoParallelIterator for std::collections::VecDeque<T> {
        type Iter = IntoIter<T>;
        type Item = T;
        fn into_par_iter(self) -> IntoIter<T> {
            IntoIter { vec: self.into_iter().collect() }
        }
    }
}

pub mod range {
    use super::*;
    /// `rayon::range::Iter`
    pub struct Iter<T> {
        pub(crate) range: std::ops::Range<T>,
    }
    macro_rules! range_impl {
        ($($t:ty),*) => {$(
            impl ParallelIterator for Iter<$t> {
                type Item = $t;
                type Base = $t;
                fn into_parts(self) -> Parts<$t, impl Fn(usize, $t, &mut dyn FnMut($t))> {
                    Parts { base: self.range.collect(), pipe: |_i: usize, x: $t, sink: &mut dyn FnMut($t)| sink(x), ordered: true, min_len: 1, max_len: usize::MAX }
                }
            }
            impl IntoParallelIterator for std::ops::Range<$t> {
                type Iter = Iter<$t>;
                type Item = $t;
                fn into_par_iter(self) -> Iter<$t> { Iter { range: self } }
            }
            impl IntoParallelIterator for std::ops::RangeInclusive<$t> {
                type Iter = crate::vec::IntoIter<$t>;
                type Item = $t;
                fn into_par_iter(self) -> crate::vec::IntoIter<$t> { crate::vec::IntoIter { vec: self.collect() } }
            }
        )*};
    }
    range_impl!(u8, u16, u32, u64, usize, i8, i16, i32, i64, isize);
}

pub mod slice {
    use super::*;
    pub struct Iter<'a, T> {
        pub(crate) slice: &'a [T],
    }
    impl<'a, T> ParallelIterator for Iter<'a, T> {
        type Item = &'a T;
        type Base = &'a T;
        fn into_parts(self) -> Parts<&'a T, impl Fn(usize, &'a T, &mut dyn FnMut(&'a T))> {
            Parts { base: self.slice.iter().collect(), pipe: |_i: usize, x: &'a T, sink: &mut dyn FnMut(&'a T)| sink(x), ordered: true, min_len: 1, max_len: usize::MAX }
        }
    }
    pub struct IterMut<'a, T> {
        pub(crate) slice: &'a mut [T],
    }
    impl<'a, T> ParallelIterator for IterMut<'a, T> {
        type Item = &'a mut T;
        type Base = &'a mut T;
        fn into_parts(self) -> Parts<&'a mut T, impl Fn(usize, &'a mut T, &mut dyn FnMut(&'a mut T))> {
            Parts { base: self.slice.iter_mut().collect(), pipe: |_i: usize, x: &'a mut T, sink: &mut dyn FnMut(&'a mut T)| sink(x), ordered: true, min_len: 1, max_len: usize::MAX }
        }
    }
    impl<'a, T> IntoParallelIterator for &'a [T] {
        type Iter = Iter<'a, T>;
        type Item = &'a T;
        fn into_par_iter(self) -> Iter<'a, T> {
            Iter { slice: self }
        }
    }
    impl<'a, T> IntoParallelIterator for &'a Vec<T> {
        type Iter = Iter<'a, T>;
        type Item = &'a T;
        fn into_par_iter(self) -> Iter<'a, T> {
            Iter { slice: self }
        }
    }
    impl<'a, T, const N: usize> IntoParallelIterator for &'a [T; N] {
        type Iter = Iter<'a, T>;
        type Item = &'a T;
        fn into_par_iter(self) -> Iter<'a, T> {
            Iter { slice: self }
        }
    }
    impl<'a, T> IntoParallelIterator for &'a mut [T] {
        type Iter = IterMut<'a, T>;
        type Item = &'a mut T;
        fn into_par_iter(self) -> IterMut<'a, T> {
            IterMut { slice: self }
        }
    }
    impl<'a, T> IntoParallelIterator for &'a mut Vec<T> {
        type Iter = IterMut<'a, T>;
        type Item = &'a mut T;
        fn into_par_iter(self) -> IterMut<'a, T> {
            IterMut { slice: self }
        }
    }

    pub trait ParallelSlice<T> {
        fn as_parallel_slice(&self) -> &[T];
        fn par_chunks(&self, size: usize) -> crate::vec::IntoIter<&[T]> {
            crate::vec::IntoIter { vec: self.as_parallel_slice().chunks(size).collect() }
        }
        fn par_chunks_exact(&self, size: usize) -> crate::vec::IntoIter<&[T]> {
            crate::vec::IntoIter { vec: self.as_parallel_slice().chunks_exact(size).collect() }
        }
        fn par_windows(&self, size: usize) -> crate::vec::IntoIter<&[T]> {
            crate::vec::IntoIter { vec: self.as_parallel_slice().windows(size).collect() }
        }
    }
    impl<T> ParallelSlice<T> for [T] {
        fn as_parallel_slice(&self) -> &[T] {
            self
        }
    }
    pub trait ParallelSliceMut<T> {
        fn as_parallel_slice_mut(&mut self) -> &mut [T];
        fn par_chunks_mut(&mut self, size: usize) -> crate::vec::IntoIter<&mut [T]> {
            crate::vec::IntoIter { vec: self.as_parallel_slice_mut().chunks_mut(size).collect() }
        }
        fn par_sort(&mut self)
        where
            T: Ord,
        {
            self.as_parallel_slice_mut().sort()
        }
        fn par_sort_by<F: Fn(&T, &T) -> std::cmp::Ordering>(&mut self, f: F) {
            self.as_parallel_slice_mut().sort_by(f)
        }
        fn par_sort_by_key<K: Ord, F: Fn(&T) -> K>(&mut self, f: F) {
            self.as_parallel_slice_mut().sort_by_key(f)
        }
        fn par_sort_by_cached_key<K: Ord, F: Fn(&T) -> K>(&mut self, f: F) {
            self.as_parallel_slice_mut().sort_by_cached_key(f)
        }
        // unstable sorts: equal elements may end up in any order; rayon's result is
        // deterministic for a given input, so is this
        fn par_sort_unstable(&mut self)
        where
            T: Ord,
        {
            self.as_parallel_slice_mut().sort_unstable()
        }
        fn par_sort_unstable_by<F: Fn(&T, &T) -> std::cmp::Ordering>(&mut self, f: F) {
            self.as_parallel_slice_mut().sort_unstable_by(f)
        }
        fn par_sort_unstable_by_key<K: Ord, F: Fn(&T) -> K>(&mut self, f: F) {
            self.as_parallel_slice_mut().sort_unstable_by_key(f)
        }
    }
    impl<T> ParallelSliceMut<T> for [T] {
        fn as_parallel_slice_mut(&mut self) -> &mut [T] {
            self
        }
    }
}

pub mod str {
    pub trait ParallelString {
        fn as_parallel_string(&self) -> &str;
        fn par_chars(&self) -> crate::vec::IntoIter<char> {
            crate::vec::IntoIter { vec: self.as_parallel_string().chars().collect() }
        }
        fn par_lines(&self) -> crate::vec::IntoIter<&str> {
            crate::vec::IntoIter { vec: self.as_parallel_string().lines().collect() }
        }
        fn par_bytes(&self) -> crate::vec::IntoIter<u8> {
            crate::vec::IntoIter { vec: self.as_parallel_string().bytes().collect() }
        }
    }
    impl ParallelString for str {
        fn as_parallel_string(&self) -> &str {
            self
        }
    }
}

pub mod collections {
    use super::*;
    use std::collections::{BTreeMap, BTreeSet, HashMap, HashSet};
    // hash containers are parallel-iterated in *their own iteration order* (rayon
    // collects them into a Vec first), which is a hash-keying, not a schedule, matter
    impl<K, V, S> IntoParallelIterator for HashMap<K, V, S> {
        type Iter = crate::vec::IntoIter<(K, V)>;
        type Item = (K, V);
        fn into_par_iter(self) -> Self::Iter {
            crate::vec::IntoIter { vec: self.into_iter().collect() }
        }
    }
    impl<'a, K, V, S> IntoParallelIterator for &'a HashMap<K, V, S> {
        type Iter = crate::vec::IntoIter<(&'a K, &'a V)>;
        type Item = (&'a K, &'a V);
        fn into_par_iter(self) -> Self::Iter {
            crate::vec::IntoIter { vec: self.iter().collect() }
        }
    }
    impl<'a, K, V, S> IntoParallelIterator for &'a mut HashMap<K, V, S> {
        type Iter = crate::vec::IntoIter<(&'a K, &'a mut V)>;
        type Item = (&'a K, &'a mut V);
        fn into_par_iter(self) -> Self::Iter {
            crate::vec::IntoIter { vec: self.iter_mut().collect() }
        }
    }
    impl<K, S> IntoParallelIterator for HashSet<K, S> {
        type Iter = crate::vec::IntoIter<K>;
        type Item = K;
        fn into_par_iter(self) -> Self::Iter {
            crate::vec::IntoIter { vec: self.into_iter().collect() }
        }
    }
    impl<'a, K, S> IntoParallelIterator for &'a HashSet<K, S> {
        type Iter = crate::vec::IntoIter<&'a K>;
        type Item = &'a K;
        fn into_par_iter(self) -> Self::Iter {
            crate::vec::IntoIter { vec: self.iter().collect() }
        }
    }
    impl<K, V> IntoParallelIterator for BTreeMap<K, V> {
        type Iter = crate::vec::IntoIter<(K, V)>;
        type Item = (K, V);
        fn into_par_iter(self) -> Self::Iter {
            crate::vec::IntoIter { vec: self.into_iter().collect() }
        }
    }
    impl<'a, K, V> IntoParallelIterator for &'a BTreeMap<K, V> {
        type Iter = crate::vec::IntoIter<(&'a K, &'a V)>;
        type Item = (&'a K, &'a V);
        fn into_par_iter(self) -> Self::Iter {
            crate::vec::IntoIter { vec: self.iter().collect() }
        }
    }
    impl<K> IntoParallelIterator for BTreeSet<K> {
        type Iter = crate::vec::IntoIter<K>;
        type Item = K;
        fn into_par_iter(self) -> Self::Iter {
            crate::vec::IntoIter { vec: self.into_iter().collect() }
        }
    }
    impl<'a, K> IntoParallelIterator for &'a BTreeSet<K> {
        type Iter = crate::vec::IntoIter<&'a K>;
        type Item = &'a K;
        fn into_par_iter(self) -> Self::Iter {
            crate::vec::IntoIter { vec: self.iter().collect() }
        }
    }
}

// ---- rayon-core surface ----------------------------------------------------

pub fn current_num_threads() -> usize {
    sim::threads()
}
pub fn current_thread_index() -> Option<usize> {
    sim::worker_index()
}
pub fn max_num_threads() -> usize {
    65535
}

/// `join`: `a` runs on the calling worker; `b` is pushed on its deque and is
/// either popped back (runs after `a`) or stolen (may complete before `a`).
pub fn join<A, B, RA, RB>(a: A, b: B) -> (RA, RB)
where
    A: FnOnce() -> RA,
    B: FnOnce() -> RB,
{
    sim::with_stats(|s| s.joins += 1);
    let stolen_first = sim::threads() > 1 && sim::coin(1, 2);
    sim::trace(0xD000 ^ stolen_first as u64);
    if stolen_first {
        let w = sim::rnd(sim::threads());
        let rb = {
            let _g = sim::WorkerGuard::enter(w);
            b()
        };
        let ra = a();
        (ra, rb)
    } else {
        let ra = a();
        let rb = b();
        (ra, rb)
    }
}

pub struct FnContext {
    migrated: bool,
}
impl FnContext {
    pub fn migrated(&self) -> bool {
        self.migrated
    }
}
pub fn join_context<A, B, RA, RB>(a: A, b: B) -> (RA, RB)
where
    A: FnOnce(FnContext) -> RA,
    B: FnOnce(FnContext) -> RB,
{
    let stolen = sim::threads() > 1 && sim::coin(1, 2);
    if stolen {
        let rb = b(FnContext { migrated: true });
        let ra = a(FnContext { migrated: false });
        (ra, rb)
    } else {
        let ra = a(FnContext { migrated: false });
        let rb = b(FnContext { migrated: false });
        (ra, rb)
    }
}

type Spawned<'scope> = Box<dyn FnOnce(&Scope<'scope>) + 'scope>;
pub struct Scope<'scope> {
    pending: std::cell::RefCell<Vec<Spawned<'scope>>>,
}
impl<'scope> Scope<'scope> {
    /// a spawned task may start right away on another worker or wait until the
    /// spawning closure is done; the PRNG decides
    pub fn spawn<F: FnOnce(&Scope<'scope>) + 'scope>(&self, f: F) {
        sim::with_stats(|s| s.spawns += 1);
        if sim::threads() > 1 && sim::coin(1, 3) {
            let w = sim::rnd(sim::threads());
            let _g = sim::WorkerGuard::enter(w);
            f(self)
        } else {
            self.pending.borrow_mut().push(Box::new(f));
        }
    }
    fn drain(&self) {
        loop {
            let next = {
                let mut p = self.pending.borrow_mut();
                if p.is_empty() {
                    break;
                }
                let i = sim::rnd(p.len());
                p.swap_remove(i)
            };
            let w = sim::rnd(sim::threads());
            let _g = sim::WorkerGuard::enter(w);
            next(self);
        }
    }
}
pub fn scope<'scope, OP, R>(op: OP) -> R
where
    OP: FnOnce(&Scope<'scope>) -> R,
{
    sim::with_stats(|s| s.scopes += 1);
    let s = Scope { pending: std::cell::RefCell::new(Vec::new()) };
    let r = op(&s);
    s.drain();
    r
}
pub fn in_place_scope<'scope, OP, R>(op: OP) -> R
where
    OP: FnOnce(&Scope<'scope>) -> R,
{
    scope(op)
}
/// fire-and-forget `spawn`: needs `'static`; runs immediately (one legal schedule)
pub fn spawn<F: FnOnce() + 'static>(f: F) {
    sim::with_stats(|s| s.spawns += 1);
    f()
}

#[derive(Debug)]
pub struct ThreadPoolBuildError;
impl std::fmt::Display for ThreadPoolBuildError {
    fn fmt(&self, f: &mut std::fmt::Formatter<'_>) -> std::fmt::Result {
        write!(f, "The global thread pool has already been initialized.")
    }
}
impl std::error::Error for ThreadPoolBuildError {}

#[derive(Default)]
pub struct ThreadPoolBuilder {
    n: usize,
}
impl ThreadPoolBuilder {
    pub fn new() -> Self {
        ThreadPoolBuilder { n: 0 }
    }
    pub fn num_threads(mut self, n: usize) -> Self {
        self.n = n;
        self
    }
    pub fn thread_name<F: FnMut(usize) -> String + 'static>(self, _f: F) -> Self {
        self
    }
    pub fn stack_size(self, _s: usize) -> Self {
        self
    }
    pub fn build(self) -> Result<ThreadPool, ThreadPoolBuildError> {
        // num_threads(0) means "default": the size of the global pool
        let n = if self.n == 0 { sim::global_threads() } else { self.n };
        Ok(ThreadPool { n })
    }
    pub fn build_global(self) -> Result<(), ThreadPoolBuildError> {
        if sim::build_global(self.n) {
            Ok(())
        } else {
            Err(ThreadPoolBuildError)
        }
    }
}

#[derive(Debug)]
pub struct ThreadPool {
    n: usize,
}
impl ThreadPool {
    pub fn new(n: usize) -> ThreadPool {
        ThreadPool { n: n.max(1) }
    }
    pub fn install<OP, R>(&self, op: OP) -> R
    where
        OP: FnOnce() -> R,
    {
        let _g = sim::PoolGuard::enter(self.n);
        op()
    }
    pub fn current_num_threads(&self) -> usize {
        self.n
    }
    pub fn current_thread_index(&self) -> Option<usize> {
        sim::worker_index()
    }
    pub fn join<A, B, RA, RB>(&self, a: A, b: B) -> (RA, RB)
    where
        A: FnOnce() -> RA,
        B: FnOnce() -> RB,
    {
        self.install(|| join(a, b))
    }
    pub fn scope<'scope, OP, R>(&self, op: OP) -> R
    where
        OP: FnOnce(&Scope<'scope>) -> R,
    {
        self.install(|| scope(op))
    }
    pub fn spawn<F: FnOnce() + 'static>(&self, f: F) {
        self.install(f)
    }
}
