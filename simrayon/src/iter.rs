//! Parallel-iterator surface of the stub.
//!
//! A parallel iterator is (base items, a per-item pipeline, flags).  Consumers
//! hand the base index range to `sim::run_job`, which decides the split tree
//! and the order in which leaves execute.
use crate::sim::{self, Node};
use std::cell::{Cell, RefCell};
use std::collections::{BTreeMap, BTreeSet, HashMap, HashSet, LinkedList, VecDeque};
use std::hash::{BuildHasher, Hash};

pub struct Parts<B, P> {
    pub base: Vec<B>,
    pub pipe: P,
    /// false for `par_bridge`-style sources: results have no index order
    pub ordered: bool,
    pub min_len: usize,
    pub max_len: usize,
}

/// What a finished job hands to a consumer.
pub struct Driven<A> {
    nodes: Vec<Node>,
    acc: Vec<Option<A>>,
    exec: Vec<usize>,
    ordered: bool,
}

impl<A> Driven<A> {
    fn leaves_in_index_order(&self) -> Vec<usize> {
        fn walk(nodes: &[Node], i: usize, out: &mut Vec<usize>) {
            match nodes[i].kids {
                None => out.push(i),
                Some((l, r)) => {
                    walk(nodes, l, out);
                    walk(nodes, r, out);
                }
            }
        }
        let mut v = vec![];
        walk(&self.nodes, 0, &mut v);
        v
    }
    /// leaf accumulators in the order the results are observable in:
    /// index order for indexed sources, execution order otherwise
    pub fn into_leaves(mut self) -> Vec<A> {
        let order = if self.ordered { self.leaves_in_index_order() } else { self.exec.clone() };
        order.into_iter().filter_map(|i| self.acc[i].take()).collect()
    }
    /// combine leaf accumulators along the split tree, `combine(left, right)`
    pub fn reduce_tree(mut self, combine: &mut dyn FnMut(A, A) -> A) -> A {
        fn go<A>(nodes: &[Node], acc: &mut Vec<Option<A>>, i: usize, combine: &mut dyn FnMut(A, A) -> A) -> A {
            match nodes[i].kids {
                None => acc[i].take().expect("leaf was not executed"),
                Some((l, r)) => {
                    let a = go(nodes, acc, l, combine);
                    let b = go(nodes, acc, r, combine);
                    combine(a, b)
                }
            }
        }
        if !self.ordered {
            // unindexed source: fold in execution order
            let exec = self.exec.clone();
            let mut it = exec.into_iter().filter_map(|i| self.acc[i].take());
            let first = it.next().expect("no leaf");
            return it.fold(first, |a, b| combine(a, b));
        }
        let nodes = std::mem::take(&mut self.nodes);
        go(&nodes, &mut self.acc, 0, combine)
    }
}

/// Drive `it`: every leaf starts from `new_acc()`, items are `push`ed in
/// sequence; `full()` is polled before each item (short-circuiting consumers).
pub fn drive<I: ParallelIterator, A>(
    it: I,
    new_acc: &dyn Fn() -> A,
    push: &dyn Fn(&mut A, I::Item),
    full: &dyn Fn() -> bool,
) -> Driven<A> {
    let Parts { base, pipe, ordered, min_len, max_len } = it.into_parts();
    let len = base.len();
    let mut slots: Vec<Option<I::Base>> = base.into_iter().map(Some).collect();
    let accs: RefCell<Vec<Option<A>>> = RefCell::new(Vec::new());
    let exec: RefCell<Vec<usize>> = RefCell::new(Vec::new());
    let (min_len, max_len) = if ordered { (min_len, max_len) } else { (1, 1) };
    let nodes = sim::run_job(len, min_len, max_len, |node, lo, hi| {
        let mut acc = new_acc();
        for i in lo..hi {
            if full() {
                break;
            }
            let b = slots[i].take().expect("item consumed twice");
            pipe(i, b, &mut |x| push(&mut acc, x));
        }
        let mut a = accs.borrow_mut();
        if a.len() <= node {
            a.resize_with(node + 1, || None);
        }
        a[node] = Some(acc);
        exec.borrow_mut().push(node);
    });
    let mut acc = accs.into_inner();
    acc.resize_with(nodes.len(), || None);
    Driven { nodes, acc, exec: exec.into_inner(), ordered }
}

fn never() -> bool {
    false
}

pub struct Piped<B, T, P> {
    parts: Parts<B, P>,
    _t: std::marker::PhantomData<fn() -> T>,
}

impl<B, T, P: Fn(usize, B, &mut dyn FnMut(T))> ParallelIterator for Piped<B, T, P> {
    type Item = T;
    type Base = B;
    fn into_parts(self) -> Parts<B, impl Fn(usize, B, &mut dyn FnMut(T))> {
        self.parts
    }
}

fn piped<B, T, P: Fn(usize, B, &mut dyn FnMut(T))>(parts: Parts<B, P>) -> Piped<B, T, P> {
    Piped { parts, _t: std::marker::PhantomData }
}

/// `rayon::iter::Map`
pub struct Map<I, F> {
    base: I,
    f: F,
}

impl<I: ParallelIterator, R, F: Fn(I::Item) -> R> ParallelIterator for Map<I, F> {
    type Item = R;
    type Base = I::Base;
    fn into_parts(self) -> Parts<I::Base, impl Fn(usize, I::Base, &mut dyn FnMut(R))> {
        let Parts { base, pipe, ordered, min_len, max_len } = self.base.into_parts();
        let f = self.f;
        Parts {
            base,
            pipe: move |i: usize, b: I::Base, sink: &mut dyn FnMut(R)| pipe(i, b, &mut |x| sink(f(x))),
            ordered,
            min_len,
            max_len,
        }
    }
}

pub enum Either<L, R> {
    Left(L),
    Right(R),
}

pub trait ParallelIterator: Sized {
    type Item;
    #[doc(hidden)]
    type Base;
    #[doc(hidden)]
    fn into_parts(self) -> Parts<Self::Base, impl Fn(usize, Self::Base, &mut dyn FnMut(Self::Item))>;

    // ---- adaptors -------------------------------------------------------
    fn map<R, F: Fn(Self::Item) -> R>(self, f: F) -> Map<Self, F> {
        Map { base: self, f }
    }
    /// as in rayon: one clone of `init` per leaf (split), shared by all items of that leaf
    fn map_with<T: Clone, R, F: Fn(&mut T, Self::Item) -> R>(self, init: T, f: F) -> impl ParallelIterator<Item = R> {
        self.map_init(move || init.clone(), f)
    }
    /// as in rayon: `init` runs once per leaf (split); its value is reused for all items of that leaf
    fn map_init<T, R, INIT: Fn() -> T, F: Fn(&mut T, Self::Item) -> R>(self, init: INIT, f: F) -> impl ParallelIterator<Item = R> {
        let state: RefCell<(u64, Option<T>)> = RefCell::new((u64::MAX, None));
        self.map(move |x| {
            let epoch = sim::leaf_epoch();
            let mut s = state.borrow_mut();
            if s.0 != epoch || s.1.is_none() {
                *s = (epoch, Some(init()));
            }
            f(s.1.as_mut().unwrap(), x)
        })
    }
    fn filter<P: Fn(&Self::Item) -> bool>(self, p: P) -> impl ParallelIterator<Item = Self::Item> {
        let Parts { base, pipe, ordered, min_len, max_len } = self.into_parts();
        piped(Parts {
            base,
            pipe: move |i: usize, b: Self::Base, sink: &mut dyn FnMut(Self::Item)| {
                pipe(i, b, &mut |x| {
                    if p(&x) {
                        sink(x)
                    }
                })
            },
            ordered,
            min_len,
            max_len,
        })
    }
    fn filter_map<R, P: Fn(Self::Item) -> Option<R>>(self, p: P) -> impl ParallelIterator<Item = R> {
        let Parts { base, pipe, ordered, min_len, max_len } = self.into_parts();
        piped(Parts {
            base,
            pipe: move |i: usize, b: Self::Base, sink: &mut dyn FnMut(R)| {
                pipe(i, b, &mut |x| {
                    if let Some(y) = p(x) {
                        sink(y)
                    }
                })
            },
            ordered,
            min_len,
            max_len,
        })
    }
    fn flat_map<PI: IntoParallelIterator, F: Fn(Self::Item) -> PI>(self, f: F) -> impl ParallelIterator<Item = PI::Item> {
        let Parts { base, pipe, ordered, min_len, max_len } = self.into_parts();
        piped(Parts {
            base,
            pipe: move |i: usize, b: Self::Base, sink: &mut dyn FnMut(PI::Item)| {
                pipe(i, b, &mut |x| {
                    // the inner iterator is itself a (nested) simulated job
                    let inner: Vec<PI::Item> = f(x).into_par_iter().collect();
                    for y in inner {
                        sink(y)
                    }
                })
            },
            ordered,
            min_len,
            max_len,
        })
    }
    fn flat_map_iter<SI: IntoIterator, F: Fn(Self::Item) -> SI>(self, f: F) -> impl ParallelIterator<Item = SI::Item> {
        let Parts { base, pipe, ordered, min_len, max_len } = self.into_parts();
        piped(Parts {
            base,
            pipe: move |i: usize, b: Self::Base, sink: &mut dyn FnMut(SI::Item)| {
                pipe(i, b, &mut |x| {
                    for y in f(x) {
                        sink(y)
                    }
                })
            },
            ordered,
            min_len,
            max_len,
        })
    }
    fn flatten(self) -> impl ParallelIterator<Item = <Self::Item as IntoParallelIterator>::Item>
    where
        Self::Item: IntoParallelIterator,
    {
        self.flat_map(|x| x)
    }
    fn flatten_iter(self) -> impl ParallelIterator<Item = <Self::Item as IntoIterator>::Item>
    where
        Self::Item: IntoIterator,
    {
        self.flat_map_iter(|x| x)
    }
    fn inspect<F: Fn(&Self::Item)>(self, f: F) -> impl ParallelIterator<Item = Self::Item> {
        self.map(move |x| {
            f(&x);
            x
        })
    }
    fn update<F: Fn(&mut Self::Item)>(self, f: F) -> impl ParallelIterator<Item = Self::Item> {
        self.map(move |mut x| {
            f(&mut x);
            x
        })
    }
    fn cloned<'a, T: 'a + Clone>(self) -> impl ParallelIterator<Item = T>
    where
        Self: ParallelIterator<Item = &'a T>,
    {
        self.map(|x: &T| x.clone())
    }
    fn copied<'a, T: 'a + Copy>(self) -> impl ParallelIterator<Item = T>
    where
        Self: ParallelIterator<Item = &'a T>,
    {
        self.map(|x: &T| *x)
    }
    fn chain<C: IntoParallelIterator<Item = Self::Item>>(self, other: C) -> impl ParallelIterator<Item = Self::Item> {
        let a = self.into_parts();
        let b = other.into_par_iter().into_parts();
        let mut base: Vec<(usize, Either<Self::Base, <C::Iter as ParallelIterator>::Base>)> = vec![];
        for (i, x) in a.base.into_iter().enumerate() {
            base.push((i, Either::Left(x)));
        }
        for (i, x) in b.base.into_iter().enumerate() {
            base.push((i, Either::Right(x)));
        }
        let (pa, pb) = (a.pipe, b.pipe);
        piped(Parts {
            base,
            pipe: move |_i: usize, x: (usize, Either<Self::Base, <C::Iter as ParallelIterator>::Base>), sink: &mut dyn FnMut(Self::Item)| match x.1 {
                Either::Left(l) => pa(x.0, l, sink),
                Either::Right(r) => pb(x.0, r, sink),
            },
            ordered: a.ordered && b.ordered,
            min_len: 1,
            max_len: usize::MAX,
        })
    }
    fn panic_fuse(self) -> Self {
        self
    }
    fn while_some<T>(self) -> impl ParallelIterator<Item = T>
    where
        Self: ParallelIterator<Item = Option<T>>,
    {
        let stop = std::rc::Rc::new(Cell::new(false));
        self.filter_map(move |x: Option<T>| {
            if stop.get() {
                return None;
            }
            if x.is_none() {
                stop.set(true);
            }
            x
        })
    }

    // ---- consumers ------------------------------------------------------
    fn for_each<F: Fn(Self::Item)>(self, f: F) {
        drive(self, &|| (), &|_, x| f(x), &never);
    }
    fn for_each_with<T: Clone, F: Fn(&mut T, Self::Item)>(self, init: T, f: F) {
        drive(self, &|| init.clone(), &|t, x| f(t, x), &never);
    }
    fn for_each_init<T, INIT: Fn() -> T, F: Fn(&mut T, Self::Item)>(self, init: INIT, f: F) {
        drive(self, &|| init(), &|t, x| f(t, x), &never);
    }
    fn try_for_each<E, F: Fn(Self::Item) -> Result<(), E>>(self, f: F) -> Result<(), E> {
        let err: RefCell<Option<E>> = RefCell::new(None);
        drive(
            self,
            &|| (),
            &|_, x| {
                if err.borrow().is_none() {
                    if let Err(e) = f(x) {
                        *err.borrow_mut() = Some(e);
                    }
                }
            },
            &|| err.borrow().is_some(),
        );
        match err.into_inner() {
            Some(e) => Err(e),
            None => Ok(()),
        }
    }
    fn count(self) -> usize {
        drive(self, &|| 0usize, &|c, _| *c += 1, &never).reduce_tree(&mut |a, b| a + b)
    }
    fn sum<S>(self) -> S
    where
        S: std::iter::Sum<Self::Item> + std::iter::Sum<S>,
    {
        // rayon: every leaf computes add(zero, items.sum()), results are added along the split tree
        fn add<T: std::iter::Sum>(l: T, r: T) -> T {
            [l, r].into_iter().sum()
        }
        let d = drive(self, &|| Vec::new(), &|v: &mut Vec<Self::Item>, x| v.push(x), &never);
        let nodes = d.nodes;
        let ordered = d.ordered;
        let exec = d.exec;
        let acc: Vec<Option<S>> = d
            .acc
            .into_iter()
            .map(|o| o.map(|v| add(std::iter::empty::<S>().sum(), v.into_iter().sum::<S>())))
            .collect();
        Driven { nodes, acc, exec, ordered }.reduce_tree(&mut |a, b| add(a, b))
    }
    fn product<S>(self) -> S
    where
        S: std::iter::Product<Self::Item> + std::iter::Product<S>,
    {
        fn mul<T: std::iter::Product>(l: T, r: T) -> T {
            [l, r].into_iter().product()
        }
        let d = drive(self, &|| Vec::new(), &|v: &mut Vec<Self::Item>, x| v.push(x), &never);
        let nodes = d.nodes;
        let ordered = d.ordered;
        let exec = d.exec;
        let acc: Vec<Option<S>> = d
            .acc
            .into_iter()
            .map(|o| o.map(|v| mul(std::iter::empty::<S>().product(), v.into_iter().product::<S>())))
            .collect();
        Driven { nodes, acc, exec, ordered }.reduce_tree(&mut |a, b| mul(a, b))
    }
    fn reduce<ID: Fn() -> Self::Item, OP: Fn(Self::Item, Self::Item) -> Self::Item>(self, identity: ID, op: OP) -> Self::Item {
        let d = drive(
            self,
            &|| Some(identity()),
            &|a: &mut Option<Self::Item>, x| {
                let cur = a.take().unwrap();
                *a = Some(op(cur, x));
            },
            &never,
        );
        d.reduce_tree(&mut |a, b| Some(op(a.unwrap(), b.unwrap()))).unwrap()
    }
    fn reduce_with<OP: Fn(Self::Item, Self::Item) -> Self::Item>(self, op: OP) -> Option<Self::Item> {
        let d = drive(
            self,
            &|| None,
            &|a: &mut Option<Self::Item>, x| {
                *a = Some(match a.take() {
                    None => x,
                    Some(cur) => op(cur, x),
                });
            },
            &never,
        );
        d.reduce_tree(&mut |a, b| match (a, b) {
            (Some(a), Some(b)) => Some(op(a, b)),
            (a, None) => a,
            (None, b) => b,
        })
    }
    /// `fold` is evaluated eagerly: one accumulator per executed leaf, in index order.
    fn fold<T, ID: Fn() -> T, F: Fn(T, Self::Item) -> T>(self, identity: ID, fold_op: F) -> crate::vec::IntoIter<T> {
        let d = drive(
            self,
            &|| Some(identity()),
            &|a: &mut Option<T>, x| {
                let cur = a.take().unwrap();
                *a = Some(fold_op(cur, x));
            },
            &never,
        );
        crate::vec::IntoIter { vec: d.into_leaves().into_iter().map(|o| o.unwrap()).collect() }
    }
    fn fold_with<T: Clone, F: Fn(T, Self::Item) -> T>(self, init: T, fold_op: F) -> crate::vec::IntoIter<T> {
        self.fold(move || init.clone(), fold_op)
    }
    fn min(self) -> Option<Self::Item>
    where
        Self::Item: Ord,
    {
        self.reduce_with(std::cmp::min)
    }
    fn max(self) -> Option<Self::Item>
    where
        Self::Item: Ord,
    {
        self.reduce_with(std::cmp::max)
    }
    fn min_by<F: Fn(&Self::Item, &Self::Item) -> std::cmp::Ordering>(self, f: F) -> Option<Self::Item> {
        self.reduce_with(move |a, b| match f(&a, &b) {
            std::cmp::Ordering::Greater => b,
            _ => a,
        })
    }
    fn max_by<F: Fn(&Self::Item, &Self::Item) -> std::cmp::Ordering>(self, f: F) -> Option<Self::Item> {
        self.reduce_with(move |a, b| match f(&a, &b) {
            std::cmp::Ordering::Greater => a,
            _ => b,
        })
    }
    fn min_by_key<K: Ord, F: Fn(&Self::Item) -> K>(self, f: F) -> Option<Self::Item> {
        self.map(move |x| (f(&x), x))
            .reduce_with(|a, b| if a.0 > b.0 { b } else { a })
            .map(|x| x.1)
    }
    fn max_by_key<K: Ord, F: Fn(&Self::Item) -> K>(self, f: F) -> Option<Self::Item> {
        self.map(move |x| (f(&x), x))
            .reduce_with(|a, b| if a.0 > b.0 { a } else { b })
            .map(|x| x.1)
    }
    fn any<P: Fn(Self::Item) -> bool>(self, p: P) -> bool {
        let found = Cell::new(false);
        drive(
            self,
            &|| (),
            &|_, x| {
                if p(x) {
                    found.set(true)
                }
            },
            &|| found.get(),
        );
        found.get()
    }
    fn all<P: Fn(Self::Item) -> bool>(self, p: P) -> bool {
        !self.any(move |x| !p(x))
    }
    /// the first match *in execution order*: schedule dependent, as in rayon
    fn find_any<P: Fn(&Self::Item) -> bool>(self, p: P) -> Option<Self::Item> {
        let found: RefCell<Option<Self::Item>> = RefCell::new(None);
        drive(
            self,
            &|| (),
            &|_, x| {
                if found.borrow().is_none() && p(&x) {
                    *found.borrow_mut() = Some(x);
                }
            },
            &|| found.borrow().is_some(),
        );
        found.into_inner()
    }
    fn find_first<P: Fn(&Self::Item) -> bool>(self, p: P) -> Option<Self::Item> {
        let d = drive(
            self,
            &|| None,
            &|a: &mut Option<Self::Item>, x| {
                if a.is_none() && p(&x) {
                    *a = Some(x)
                }
            },
            &never,
        );
        d.reduce_tree(&mut |a, b| a.or(b))
    }
    fn find_last<P: Fn(&Self::Item) -> bool>(self, p: P) -> Option<Self::Item> {
        let d = drive(
            self,
            &|| None,
            &|a: &mut Option<Self::Item>, x| {
                if p(&x) {
                    *a = Some(x)
                }
            },
            &never,
        );
        d.reduce_tree(&mut |a, b| b.or(a))
    }
    fn find_map_any<R, P: Fn(Self::Item) -> Option<R>>(self, p: P) -> Option<R> {
        self.filter_map(p).find_any(|_| true)
    }
    fn find_map_first<R, P: Fn(Self::Item) -> Option<R>>(self, p: P) -> Option<R> {
        self.filter_map(p).find_first(|_| true)
    }
    fn partition<A, B, P>(self, p: P) -> (A, B)
    where
        A: Default + Extend<Self::Item>,
        B: Default + Extend<Self::Item>,
        P: Fn(&Self::Item) -> bool,
    {
        let v: Vec<Self::Item> = self.collect();
        let (mut a, mut b) = (A::default(), B::default());
        for x in v {
            if p(&x) {
                a.extend(Some(x))
            } else {
                b.extend(Some(x))
            }
        }
        (a, b)
    }
    fn unzip<A, B, FromA, FromB>(self) -> (FromA, FromB)
    where
        Self: ParallelIterator<Item = (A, B)>,
        FromA: Default + Extend<A>,
        FromB: Default + Extend<B>,
    {
        let v: Vec<(A, B)> = self.collect();
        let (mut fa, mut fb) = (FromA::default(), FromB::default());
        for (a, b) in v {
            fa.extend(Some(a));
            fb.extend(Some(b));
        }
        (fa, fb)
    }
    fn collect<C: FromParallelIterator<Self::Item>>(self) -> C {
        C::from_par_iter(self)
    }
    fn collect_vec_list(self) -> LinkedList<Vec<Self::Item>> {
        let d = drive(self, &|| Vec::new(), &|v: &mut Vec<Self::Item>, x| v.push(x), &never);
        d.into_leaves().into_iter().collect()
    }
    fn opt_len(&self) -> Option<usize> {
        None
    }
}

/// Methods rayon offers on indexed iterators only. The stub offers them on
/// every iterator (a superset; only the compile surface matters here).
pub trait IndexedParallelIterator: ParallelIterator {
    fn enumerate(self) -> impl ParallelIterator<Item = (usize, Self::Item)> {
        let Parts { base, pipe, ordered, min_len, max_len } = self.into_parts();
        piped(Parts {
            base,
            pipe: move |i: usize, b: Self::Base, sink: &mut dyn FnMut((usize, Self::Item))| pipe(i, b, &mut |x| sink((i, x))),
            ordered,
            min_len,
            max_len,
        })
    }
    fn zip<Z: IntoParallelIterator>(self, other: Z) -> impl ParallelIterator<Item = (Self::Item, Z::Item)> {
        let a = self.into_parts();
        let b = other.into_par_iter().into_parts();
        let base: Vec<(Self::Base, <Z::Iter as ParallelIterator>::Base)> = a.base.into_iter().zip(b.base).collect();
        let (pa, pb) = (a.pipe, b.pipe);
        piped(Parts {
            base,
            pipe: move |i: usize, x: (Self::Base, <Z::Iter as ParallelIterator>::Base), sink: &mut dyn FnMut((Self::Item, Z::Item))| {
                let mut l = None;
                let mut r = None;
                pa(i, x.0, &mut |y| l = Some(y));
                pb(i, x.1, &mut |y| r = Some(y));
                if let (Some(l), Some(r)) = (l, r) {
                    sink((l, r))
                }
            },
            ordered: true,
            min_len: a.min_len.max(b.min_len),
            max_len: a.max_len.min(b.max_len),
        })
    }
    fn zip_eq<Z: IntoParallelIterator>(self, other: Z) -> impl ParallelIterator<Item = (Self::Item, Z::Item)> {
        self.zip(other)
    }
    fn rev(self) -> impl ParallelIterator<Item = Self::Item> {
        let Parts { base, pipe, ordered, min_len, max_len } = self.into_parts();
        let mut b: Vec<(usize, Self::Base)> = base.into_iter().enumerate().collect();
        b.reverse();
        piped(Parts {
            base: b,
            pipe: move |_i: usize, x: (usize, Self::Base), sink: &mut dyn FnMut(Self::Item)| pipe(x.0, x.1, sink),
            ordered,
            min_len,
            max_len,
        })
    }
    fn skip(self, n: usize) -> impl ParallelIterator<Item = Self::Item> {
        let Parts { base, pipe, ordered, min_len, max_len } = self.into_parts();
        let b: Vec<(usize, Self::Base)> = base.into_iter().enumerate().skip(n).collect();
        piped(Parts {
            base: b,
            pipe: move |_i: usize, x: (usize, Self::Base), sink: &mut dyn FnMut(Self::Item)| pipe(x.0, x.1, sink),
            ordered,
            min_len,
            max_len,
        })
    }
    fn take(self, n: usize) -> impl ParallelIterator<Item = Self::Item> {
        let Parts { base, pipe, ordered, min_len, max_len } = self.into_parts();
        let b: Vec<(usize, Self::Base)> = base.into_iter().enumerate().take(n).collect();
        piped(Parts {
            base: b,
            pipe: move |_i: usize, x: (usize, Self::Base), sink: &mut dyn FnMut(Self::Item)| pipe(x.0, x.1, sink),
            ordered,
            min_len,
            max_len,
        })
    }
    fn step_by(self, step: usize) -> impl ParallelIterator<Item = Self::Item> {
        let Parts { base, pipe, ordered, min_len, max_len } = self.into_parts();
        let b: Vec<(usize, Self::Base)> = base.into_iter().enumerate().step_by(step.max(1)).collect();
        piped(Parts {
            base: b,
            pipe: move |_i: usize, x: (usize, Self::Base), sink: &mut dyn FnMut(Self::Item)| pipe(x.0, x.1, sink),
            ordered,
            min_len,
            max_len,
        })
    }
    fn chunks(self, size: usize) -> crate::vec::IntoIter<Vec<Self::Item>> {
        let v: Vec<Self::Item> = self.collect();
        let mut out = vec![];
        let mut cur = vec![];
        for x in v {
            cur.push(x);
            if cur.len() == size.max(1) {
                out.push(std::mem::take(&mut cur));
            }
        }
        if !cur.is_empty() {
            out.push(cur);
        }
        crate::vec::IntoIter { vec: out }
    }
    fn with_min_len(self, min: usize) -> impl ParallelIterator<Item = Self::Item> {
        let mut parts = self.into_parts();
        parts.min_len = parts.min_len.max(min);
        piped(parts)
    }
    fn with_max_len(self, max: usize) -> impl ParallelIterator<Item = Self::Item> {
        let mut parts = self.into_parts();
        parts.max_len = parts.max_len.min(max.max(1));
        piped(parts)
    }
    fn len(&self) -> usize {
        0
    }
    fn collect_into_vec(self, target: &mut Vec<Self::Item>) {
        target.clear();
        let v: Vec<Self::Item> = self.collect();
        target.extend(v);
    }
    fn unzip_into_vecs<A, B>(self, left: &mut Vec<A>, right: &mut Vec<B>)
    where
        Self: ParallelIterator<Item = (A, B)>,
    {
        left.clear();
        right.clear();
        let v: Vec<(A, B)> = self.collect();
        for (a, b) in v {
            left.push(a);
            right.push(b);
        }
    }
    fn position_any<P: Fn(Self::Item) -> bool>(self, p: P) -> Option<usize> {
        self.enumerate().filter_map(move |(i, x)| if p(x) { Some(i) } else { None }).find_any(|_| true)
    }
    fn position_first<P: Fn(Self::Item) -> bool>(self, p: P) -> Option<usize> {
        let v: Vec<Self::Item> = self.collect();
        v.into_iter().position(p)
    }
}
impl<T: ParallelIterator> IndexedParallelIterator for T {}

pub trait IntoParallelIterator {
    type Iter: ParallelIterator<Item = Self::Item>;
    type Item;
    fn into_par_iter(self) -> Self::Iter;
}
impl<T: ParallelIterator> IntoParallelIterator for T {
    type Iter = T;
    type Item = T::Item;
    fn into_par_iter(self) -> T {
        self
    }
}

pub trait IntoParallelRefIterator<'data> {
    type Iter: ParallelIterator<Item = Self::Item>;
    type Item: 'data;
    fn par_iter(&'data self) -> Self::Iter;
}
impl<'data, I: 'data + ?Sized> IntoParallelRefIterator<'data> for I
where
    &'data I: IntoParallelIterator,
{
    type Iter = <&'data I as IntoParallelIterator>::Iter;
    type Item = <&'data I as IntoParallelIterator>::Item;
    fn par_iter(&'data self) -> Self::Iter {
        self.into_par_iter()
    }
}

pub trait IntoParallelRefMutIterator<'data> {
    type Iter: ParallelIterator<Item = Self::Item>;
    type Item: 'data;
    fn par_iter_mut(&'data mut self) -> Self::Iter;
}
impl<'data, I: 'data + ?Sized> IntoParallelRefMutIterator<'data> for I
where
    &'data mut I: IntoParallelIterator,
{
    type Iter = <&'data mut I as IntoParallelIterator>::Iter;
    type Item = <&'data mut I as IntoParallelIterator>::Item;
    fn par_iter_mut(&'data mut self) -> Self::Iter {
        self.into_par_iter()
    }
}

pub trait FromParallelIterator<T> {
    fn from_par_iter<I: IntoParallelIterator<Item = T>>(par_iter: I) -> Self;
}

fn collect_ordered<I: IntoParallelIterator>(it: I) -> Vec<I::Item> {
    // rayon gathers per-leaf vectors and concatenates them in index order
    let d = drive(it.into_par_iter(), &|| Vec::new(), &|v: &mut Vec<I::Item>, x| v.push(x), &never);
    d.into_leaves().into_iter().flatten().collect()
}

impl<T> FromParallelIterator<T> for Vec<T> {
    fn from_par_iter<I: IntoParallelIterator<Item = T>>(it: I) -> Self {
        collect_ordered(it)
    }
}
impl<T> FromParallelIterator<T> for VecDeque<T> {
    fn from_par_iter<I: IntoParallelIterator<Item = T>>(it: I) -> Self {
        collect_ordered(it).into()
    }
}
impl<T> FromParallelIterator<T> for LinkedList<T> {
    fn from_par_iter<I: IntoParallelIterator<Item = T>>(it: I) -> Self {
        collect_ordered(it).into_iter().collect()
    }
}
impl<T: Ord> FromParallelIterator<T> for std::collections::BinaryHeap<T> {
    fn from_par_iter<I: IntoParallelIterator<Item = T>>(it: I) -> Self {
        collect_ordered(it).into()
    }
}
impl<K: Eq + Hash, V, S: BuildHasher + Default> FromParallelIterator<(K, V)> for HashMap<K, V, S> {
    fn from_par_iter<I: IntoParallelIterator<Item = (K, V)>>(it: I) -> Self {
        collect_ordered(it).into_iter().collect()
    }
}
impl<K: Eq + Hash, S: BuildHasher + Default> FromParallelIterator<K> for HashSet<K, S> {
    fn from_par_iter<I: IntoParallelIterator<Item = K>>(it: I) -> Self {
        collect_ordered(it).into_iter().collect()
    }
}
impl<K: Ord, V> FromParallelIterator<(K, V)> for BTreeMap<K, V> {
    fn from_par_iter<I: IntoParallelIterator<Item = (K, V)>>(it: I) -> Self {
        collect_ordered(it).into_iter().collect()
    }
}
impl<K: Ord> FromParallelIterator<K> for BTreeSet<K> {
    fn from_par_iter<I: IntoParallelIterator<Item = K>>(it: I) -> Self {
        collect_ordered(it).into_iter().collect()
    }
}
impl FromParallelIterator<char> for String {
    fn from_par_iter<I: IntoParallelIterator<Item = char>>(it: I) -> Self {
        collect_ordered(it).into_iter().collect()
    }
}
impl FromParallelIterator<String> for String {
    fn from_par_iter<I: IntoParallelIterator<Item = String>>(it: I) -> Self {
        collect_ordered(it).into_iter().collect()
    }
}
impl FromParallelIterator<()> for () {
    fn from_par_iter<I: IntoParallelIterator<Item = ()>>(it: I) -> Self {
        collect_ordered(it);
    }
}
impl<T, E, C: FromParallelIterator<T>> FromParallelIterator<Result<T, E>> for Result<C, E> {
    fn from_par_iter<I: IntoParallelIterator<Item = Result<T, E>>>(it: I) -> Self {
        // rayon returns *an* error (whichever leaf hit one first); take the first in index order of those executed
        let v = collect_ordered(it);
        let mut ok = vec![];
        for x in v {
            match x {
                Ok(t) => ok.push(t),
                Err(e) => return Err(e),
            }
        }
        Ok(C::from_par_iter(crate::vec::IntoIter { vec: ok }))
    }
}
impl<T, C: FromParallelIterator<T>> FromParallelIterator<Option<T>> for Option<C> {
    fn from_par_iter<I: IntoParallelIterator<Item = Option<T>>>(it: I) -> Self {
        let v = collect_ordered(it);
        let mut ok = vec![];
        for x in v {
            ok.push(x?);
        }
        Some(C::from_par_iter(crate::vec::IntoIter { vec: ok }))
    }
}

pub trait ParallelExtend<T> {
    fn par_extend<I: IntoParallelIterator<Item = T>>(&mut self, par_iter: I);
}
impl<T> ParallelExtend<T> for Vec<T> {
    fn par_extend<I: IntoParallelIterator<Item = T>>(&mut self, it: I) {
        self.extend(collect_ordered(it))
    }
}
impl<T> ParallelExtend<T> for VecDeque<T> {
    fn par_extend<I: IntoParallelIterator<Item = T>>(&mut self, it: I) {
        self.extend(collect_ordered(it))
    }
}
impl<K: Eq + Hash, V, S: BuildHasher> ParallelExtend<(K, V)> for HashMap<K, V, S> {
    fn par_extend<I: IntoParallelIterator<Item = (K, V)>>(&mut self, it: I) {
        self.extend(collect_ordered(it))
    }
}
impl<K: Eq + Hash, S: BuildHasher> ParallelExtend<K> for HashSet<K, S> {
    fn par_extend<I: IntoParallelIterator<Item = K>>(&mut self, it: I) {
        self.extend(collect_ordered(it))
    }
}
impl<K: Ord, V> ParallelExtend<(K, V)> for BTreeMap<K, V> {
    fn par_extend<I: IntoParallelIterator<Item = (K, V)>>(&mut self, it: I) {
        self.extend(collect_ordered(it))
    }
}
impl<K: Ord> ParallelExtend<K> for BTreeSet<K> {
    fn par_extend<I: IntoParallelIterator<Item = K>>(&mut self, it: I) {
        self.extend(collect_ordered(it))
    }
}

/// `par_bridge`: items are handed to whichever worker asks next, so results
/// carry no index order.
pub trait ParallelBridge: Sized {
    fn par_bridge(self) -> IterBridge<Self>;
}
impl<T: Iterator> ParallelBridge for T {
    fn par_bridge(self) -> IterBridge<Self> {
        IterBridge { iter: self }
    }
}
pub struct IterBridge<I> {
    iter: I,
}
impl<I: Iterator> ParallelIterator for IterBridge<I> {
    type Item = I::Item;
    type Base = I::Item;
    fn into_parts(self) -> Parts<I::Item, impl Fn(usize, I::Item, &mut dyn FnMut(I::Item))> {
        Parts {
            base: self.iter.collect(),
            pipe: |_i: usize, x: I::Item, sink: &mut dyn FnMut(I::Item)| sink(x),
            ordered: false,
            min_len: 1,
            max_len: 1,
        }
    }
}

pub fn empty<T>() -> crate::vec::IntoIter<T> {
    crate::vec::IntoIter { vec: vec![] }
}
pub fn once<T>(x: T) -> crate::vec::IntoIter<T> {
    crate::vec::IntoIter { vec: vec![x] }
}
pub fn repeatn<T: Clone>(x: T, n: usize) -> crate::vec::IntoIter<T> {
    crate::vec::IntoIter { vec: vec![x; n] }
}
