//! The simulated work-stealing scheduler and its control surface.
//!
//! Everything runs on the calling OS thread. A "pool" is a number `p` of
//! simulated workers, each with a deque of jobs, exactly as rayon-core has;
//! a seeded PRNG decides which worker acts next and whom it steals from.
//! A job over an index range is split the way `bridge_producer_consumer` +
//! `LengthSplitter` split it in rayon 1.12 (at `len/2`, while the split budget
//! lasts, budget reset when the job was stolen).  Leaves run whole, one after
//! another, in the order the simulated workers reach them.
use std::cell::RefCell;
use std::collections::VecDeque;

#[derive(Clone, Debug, Default)]
pub struct Stats {
    pub jobs: u64,
    pub leaves: u64,
    pub splits: u64,
    pub steals: u64,
    pub joins: u64,
    pub scopes: u64,
    pub spawns: u64,
    pub max_leaves_in_job: u64,
    pub installs: u64,
    /// rolling hash of every decision taken (tree shapes, execution orders, worker ids)
    pub trace: u64,
}

struct State {
    rng: [u64; 4],
    global_threads: usize,
    global_built: bool,
    pool_stack: Vec<usize>,
    worker_stack: Vec<usize>,
    stats: Stats,
}

thread_local! {
    static STATE: RefCell<State> = RefCell::new(State {
        rng: seed_rng(0),
        global_threads: 1,
        global_built: false,
        pool_stack: Vec::new(),
        worker_stack: Vec::new(),
        stats: Stats::default(),
    });
}

fn splitmix(x: &mut u64) -> u64 {
    *x = x.wrapping_add(0x9E3779B97F4A7C15);
    let mut z = *x;
    z = (z ^ (z >> 30)).wrapping_mul(0xBF58476D1CE4E5B9);
    z = (z ^ (z >> 27)).wrapping_mul(0x94D049BB133111EB);
    z ^ (z >> 31)
}

fn seed_rng(seed: u64) -> [u64; 4] {
    let mut s = seed ^ 0x5151_5151_7a7a_7a7a;
    [splitmix(&mut s), splitmix(&mut s), splitmix(&mut s), splitmix(&mut s)]
}

fn next_u64(s: &mut [u64; 4]) -> u64 {
    let result = s[1].wrapping_mul(5).rotate_left(7).wrapping_mul(9);
    let t = s[1] << 17;
    s[2] ^= s[0];
    s[3] ^= s[1];
    s[1] ^= s[2];
    s[0] ^= s[3];
    s[2] ^= t;
    s[3] = s[3].rotate_left(45);
    result
}

/// Start a simulated run on this thread: schedule PRNG seed and size of the global pool.
pub fn begin(seed: u64, global_threads: usize) {
    STATE.with(|s| {
        let mut s = s.borrow_mut();
        s.rng = seed_rng(seed);
        s.global_threads = global_threads.max(1);
        s.global_built = false;
        s.pool_stack.clear();
        s.worker_stack.clear();
        s.stats = Stats::default();
    });
}

/// Finish the run, returning what the scheduler did.
pub fn end() -> Stats {
    STATE.with(|s| {
        let mut s = s.borrow_mut();
        let st = std::mem::take(&mut s.stats);
        s.pool_stack.clear();
        s.worker_stack.clear();
        st
    })
}

/// Statistics so far, without ending the run.
pub fn stats() -> Stats {
    STATE.with(|s| s.borrow().stats.clone())
}

/// `true`: this crate is the simulation stub (the real rayon has no `sim` module).
pub const IS_SIMULATED: bool = true;

pub(crate) fn rnd(n: usize) -> usize {
    if n <= 1 {
        return 0;
    }
    STATE.with(|s| (next_u64(&mut s.borrow_mut().rng) % n as u64) as usize)
}

pub(crate) fn coin(num: u32, den: u32) -> bool {
    STATE.with(|s| (next_u64(&mut s.borrow_mut().rng) % den as u64) < num as u64)
}

pub(crate) fn trace(x: u64) {
    STATE.with(|s| {
        let mut s = s.borrow_mut();
        let t = s.stats.trace;
        s.stats.trace = (t ^ x).wrapping_mul(0x100000001b3).rotate_left(17) ^ 0x9E3779B97F4A7C15;
    });
}

pub(crate) fn with_stats<R>(f: impl FnOnce(&mut Stats) -> R) -> R {
    STATE.with(|s| f(&mut s.borrow_mut().stats))
}

pub(crate) fn threads() -> usize {
    STATE.with(|s| {
        let s = s.borrow();
        *s.pool_stack.last().unwrap_or(&s.global_threads)
    })
}

pub(crate) fn worker_index() -> Option<usize> {
    STATE.with(|s| s.borrow().worker_stack.last().copied())
}

pub(crate) fn build_global(n: usize) -> bool {
    STATE.with(|s| {
        let mut s = s.borrow_mut();
        if s.global_built {
            return false;
        }
        s.global_built = true;
        if n > 0 {
            s.global_threads = n;
        }
        true
    })
}

pub(crate) struct PoolGuard;
impl PoolGuard {
    pub(crate) fn enter(n: usize) -> PoolGuard {
        STATE.with(|s| {
            let mut s = s.borrow_mut();
            s.pool_stack.push(n.max(1));
            // a job installed into another pool starts on one of that pool's workers
            s.worker_stack.push(0);
            s.stats.installs += 1;
        });
        PoolGuard
    }
}
impl Drop for PoolGuard {
    fn drop(&mut self) {
        STATE.with(|s| {
            let mut s = s.borrow_mut();
            s.pool_stack.pop();
            s.worker_stack.pop();
        });
    }
}

pub(crate) struct WorkerGuard;
impl WorkerGuard {
    pub(crate) fn enter(w: usize) -> WorkerGuard {
        STATE.with(|s| s.borrow_mut().worker_stack.push(w));
        WorkerGuard
    }
}
impl Drop for WorkerGuard {
    fn drop(&mut self) {
        STATE.with(|s| {
            s.borrow_mut().worker_stack.pop();
        });
    }
}

/// One node of the split tree of a job.
#[derive(Clone, Debug)]
pub(crate) struct Node {
    pub lo: usize,
    pub hi: usize,
    pub kids: Option<(usize, usize)>,
}

#[derive(Clone, Copy)]
struct Job {
    node: usize,
    splits: usize,
}

/// Run one indexed job of `len` items under the simulated scheduler.
/// `leaf(node_id, lo, hi)` executes items `lo..hi` sequentially.
/// Returns the split tree (node 0 is the root).
pub(crate) fn run_job(
    len: usize,
    min_len: usize,
    max_len: usize,
    mut leaf: impl FnMut(usize, usize, usize),
) -> Vec<Node> {
    let p = threads();
    let min = min_len.max(1);
    let mut root_splits = p;
    let min_splits = len / max_len.max(1);
    if min_splits > root_splits {
        root_splits = min_splits;
    }
    let mut nodes = vec![Node { lo: 0, hi: len, kids: None }];
    let mut deques: Vec<VecDeque<Job>> = (0..p).map(|_| VecDeque::new()).collect();
    let w0 = worker_index().unwrap_or(0).min(p - 1);
    // how eager idle workers are to steal in this job: 0 = never while the owner has work
    let eagerness = [0u32, 1, 4, 8][rnd(4)];
    with_stats(|s| s.jobs += 1);
    trace(0xA000 ^ (len as u64) << 20 ^ (p as u64) << 8 ^ eagerness as u64);
    let mut nleaves = 0u64;

    let mut current: Option<(usize, Job, bool)> = Some((w0, Job { node: 0, splits: root_splits }, false));
    loop {
        let (w, mut job, mut migrated) = match current.take() {
            Some(c) => c,
            None => {
                // choose the next actor
                let busy: Vec<usize> = (0..p).filter(|w| !deques[*w].is_empty()).collect();
                if busy.is_empty() {
                    break;
                }
                let steal = p > 1 && coin(eagerness, 8);
                if steal {
                    let thief = rnd(p);
                    if deques[thief].is_empty() {
                        let victim = busy[rnd(busy.len())];
                        let job = deques[victim].pop_front().unwrap();
                        with_stats(|s| s.steals += 1);
                        trace(0xB000 ^ (thief as u64) << 8 ^ victim as u64);
                        (thief, job, true)
                    } else {
                        let job = deques[thief].pop_back().unwrap();
                        (thief, job, false)
                    }
                } else {
                    let w = busy[rnd(busy.len())];
                    let job = deques[w].pop_back().unwrap();
                    (w, job, false)
                }
            }
        };
        // descend to a leaf, pushing right halves on w's own deque
        loop {
            let (lo, hi) = (nodes[job.node].lo, nodes[job.node].hi);
            let n = hi - lo;
            let can = n / 2 >= min
                && if migrated {
                    job.splits = std::cmp::max(job.splits / 2, p);
                    true
                } else if job.splits > 0 {
                    job.splits /= 2;
                    true
                } else {
                    false
                };
            if !can {
                break;
            }
            let mid = lo + n / 2;
            let l = nodes.len();
            nodes.push(Node { lo, hi: mid, kids: None });
            nodes.push(Node { lo: mid, hi, kids: None });
            nodes[job.node].kids = Some((l, l + 1));
            with_stats(|s| s.splits += 1);
            deques[w].push_back(Job { node: l + 1, splits: job.splits });
            job = Job { node: l, splits: job.splits };
            migrated = false;
        }
        let (lo, hi) = (nodes[job.node].lo, nodes[job.node].hi);
        trace(0xC000 ^ (w as u64) << 40 ^ (lo as u64) << 20 ^ hi as u64);
        nleaves += 1;
        {
            let _g = WorkerGuard::enter(w);
            next_leaf();
            leaf(job.node, lo, hi);
            next_leaf();
        }
    }
    with_stats(|s| {
        s.leaves += nleaves;
        if nleaves > s.max_leaves_in_job {
            s.max_leaves_in_job = nleaves;
        }
    });
    nodes
}

thread_local! {
    static LEAF_EPOCH: std::cell::Cell<u64> = const { std::cell::Cell::new(0) };
}
/// a number that changes whenever a new leaf starts executing (per-leaf state of map_init / map_with)
pub(crate) fn leaf_epoch() -> u64 {
    LEAF_EPOCH.with(|e| e.get())
}
pub(crate) fn next_leaf() {
    LEAF_EPOCH.with(|e| e.set(e.get() + 1));
}

pub(crate) fn global_threads() -> usize {
    STATE.with(|s| s.borrow().global_threads)
}
