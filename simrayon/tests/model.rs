//! Self-tests of the scheduler model: what must be schedule independent is, what may vary does.
use rayon::prelude::*;
use std::collections::BTreeSet;
use std::sync::Mutex;

#[test]
fn collect_is_index_ordered_under_every_schedule() {
    for seed in 0..300 {
        for p in [1, 2, 3, 7, 16] {
            rayon::sim::begin(seed, p);
            let v: Vec<usize> = (0..57usize).into_par_iter().map(|x| x * 2).collect();
            let s = rayon::sim::end();
            assert_eq!(v, (0..57).map(|x| x * 2).collect::<Vec<_>>());
            assert!(s.jobs == 1 && s.leaves >= 1);
        }
    }
}

#[test]
fn float_sum_depends_on_the_split_tree() {
    let data: Vec<f64> = (0..64).map(|i| if i % 2 == 0 { 1e16 } else { 1.0 }).chain((0..64).map(|i| if i % 2 == 0 { -1e16 } else { 3.0 })).collect();
    let mut seen = BTreeSet::new();
    for seed in 0..400 {
        rayon::sim::begin(seed, 2 + (seed as usize % 15));
        let s: f64 = data.clone().into_par_iter().sum();
        rayon::sim::end();
        seen.insert(s.to_bits());
    }
    assert!(seen.len() > 1, "a non-associative reduction must be observable as schedule dependent");
}

#[test]
fn for_each_order_varies_and_every_item_runs_once() {
    let mut orders = BTreeSet::new();
    for seed in 0..200 {
        rayon::sim::begin(seed, 4);
        let log = Mutex::new(vec![]);
        (0..40usize).into_par_iter().for_each(|i| log.lock().unwrap().push(i));
        rayon::sim::end();
        let l = log.into_inner().unwrap();
        let mut sorted = l.clone();
        sorted.sort();
        assert_eq!(sorted, (0..40).collect::<Vec<_>>());
        orders.insert(l);
    }
    assert!(orders.len() > 20, "leaf execution order must vary with the schedule seed ({} orders)", orders.len());
}

#[test]
fn one_worker_pool_never_steals_and_runs_in_index_order() {
    rayon::sim::begin(9, 1);
    assert_eq!(rayon::current_num_threads(), 1);
    let log = Mutex::new(vec![]);
    (0..30usize).into_par_iter().for_each(|i| log.lock().unwrap().push(i));
    let s = rayon::sim::end();
    assert_eq!(log.into_inner().unwrap(), (0..30).collect::<Vec<_>>());
    assert_eq!(s.steals, 0);
}

#[test]
fn same_seed_same_schedule() {
    let run = |seed| {
        rayon::sim::begin(seed, 6);
        let log = Mutex::new(vec![]);
        (0..50usize).into_par_iter().for_each(|i| log.lock().unwrap().push((i, rayon::current_thread_index())));
        let s = rayon::sim::end();
        (log.into_inner().unwrap(), s.trace)
    };
    for seed in 0..50 {
        assert_eq!(run(seed), run(seed));
    }
    assert_ne!(run(1).1, run(2).1);
}

#[test]
fn installed_pool_reports_its_size() {
    rayon::sim::begin(1, 3);
    assert_eq!(rayon::current_num_threads(), 3);
    let pool = rayon::ThreadPoolBuilder::new().num_threads(11).build().unwrap();
    assert_eq!(pool.install(|| rayon::current_num_threads()), 11);
    assert_eq!(rayon::current_num_threads(), 3);
    rayon::sim::end();
}

#[test]
fn minimum_split_depth_follows_the_pool_size() {
    // with p workers the root budget is p, halved per level: at least floor(log2 p)+1 levels of splits
    for (p, min_leaves) in [(1usize, 2u64), (2, 4), (4, 8), (8, 16)] {
        rayon::sim::begin(5, p);
        let _: Vec<usize> = (0..64usize).into_par_iter().collect();
        let s = rayon::sim::end();
        assert!(s.leaves >= min_leaves, "p={} leaves={}", p, s.leaves);
    }
}

#[test]
fn map_init_state_is_per_leaf_and_shared_inside_a_leaf() {
    // the number of init() calls equals the number of leaves, and items of one leaf see the same state
    for seed in 0..50 {
        rayon::sim::begin(seed, 4);
        let inits = std::sync::atomic::AtomicUsize::new(0);
        let v: Vec<usize> = (0..64usize)
            .into_par_iter()
            .map_init(
                || {
                    inits.fetch_add(1, std::sync::atomic::Ordering::SeqCst);
                    0usize
                },
                |count, _x| {
                    *count += 1;
                    *count
                },
            )
            .collect();
        let s = rayon::sim::end();
        assert_eq!(inits.load(std::sync::atomic::Ordering::SeqCst) as u64, s.leaves);
        // inside a leaf the counter runs 1,2,3,...: the first item of every leaf sees 1
        assert_eq!(v.iter().filter(|c| **c == 1).count() as u64, s.leaves);
        assert!(v.iter().any(|c| *c > 1));
    }
}
