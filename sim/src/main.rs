//! graphsim — deterministic simulation with fault injection for graphrs. See /verif/DESIGN.md.
mod core {
    pub mod case;
    pub mod json;
    pub mod model;
    pub mod real;
    pub mod rng;
    pub mod rt;
}
mod evidence;
mod gen;
mod known;
mod minimise;
#[cfg(feature = "native")]
mod native_c07;
mod oracle;
mod pool;
mod props;
mod replay;
mod runner;
mod supervisor;
mod worker;

use props::Tier;

#[global_allocator]
static ALLOC: core::rt::Counting = core::rt::Counting;

fn arg<'a>(args: &'a [String], name: &str) -> Option<&'a str> {
    args.iter().position(|a| a == name).and_then(|i| args.get(i + 1)).map(|s| s.as_str())
}

fn tier_of(s: Option<&str>) -> Tier {
    match s {
        Some("thorough") => Tier::Thorough,
        _ => Tier::Quick,
    }
}

fn main() {
    let args: Vec<String> = std::env::args().collect();
    core::rt::install_panic_hook();
    let cmd = args.get(1).map(|s| s.as_str()).unwrap_or("help");
    // every invocation proves the H seam first; a failure here is a harness error, never a violation
    if cmd != "help" {
        if let Err(e) = core::rt::hash_seam_selftest() {
            eprintln!("HARNESS ERROR: {}", e);
            std::process::exit(2);
        }
    }
    let seed: u64 = arg(&args, "--seed").and_then(|s| s.parse().ok()).or_else(|| std::env::var("VERIF_SEED").ok().and_then(|s| s.parse().ok())).unwrap_or(20261002);
    let code = match cmd {
        "worker" => worker::run(worker::WorkerArgs {
            prop: arg(&args, "--prop").unwrap_or("").to_string(),
            tier: tier_of(arg(&args, "--tier")),
            seed,
            from: arg(&args, "--from").and_then(|s| s.parse().ok()).unwrap_or(0),
            to: arg(&args, "--to").and_then(|s| s.parse().ok()).unwrap_or(0),
            stride: arg(&args, "--stride").and_then(|s| s.parse().ok()).unwrap_or(1),
        }),
        "supervise" => {
            let workers = arg(&args, "--workers").and_then(|s| s.parse().ok()).or_else(|| std::env::var("VERIF_WORKERS").ok().and_then(|s| s.parse().ok())).unwrap_or(16);
            supervisor::supervise(supervisor::SupArgs {
                prop: arg(&args, "--prop").unwrap_or("").to_string(),
                tier: tier_of(arg(&args, "--tier")),
                seed,
                workers,
                runs: arg(&args, "--runs").and_then(|s| s.parse().ok()),
                verif_dir: arg(&args, "--verif-dir").map(|s| s.to_string()).unwrap_or_else(core::rt::verif_dir),
                out_dir: String::new(),
                summary_only: arg(&args, "--summary-only").map(|s| s.to_string()),
                emit_fp: false,
            })
            .exit
        }
        "fingerprints" => {
            // determinism proof support: print "idx fingerprint" for the first --runs cases
            let workers = arg(&args, "--workers").and_then(|s| s.parse().ok()).unwrap_or(16);
            let a = supervisor::SupArgs {
                prop: arg(&args, "--prop").unwrap_or("").to_string(),
                tier: tier_of(arg(&args, "--tier")),
                seed,
                workers,
                runs: arg(&args, "--runs").and_then(|s| s.parse().ok()),
                verif_dir: core::rt::verif_dir(),
                out_dir: String::new(),
                summary_only: None,
                emit_fp: true,
            };
            let total = a.runs.unwrap_or(1000);
            match supervisor::collect(&a, total) {
                Ok(m) => {
                    for (i, f) in &m.fp_by_idx {
                        println!("{} {:016x}", i, f);
                    }
                    0
                }
                Err(e) => {
                    eprintln!("HARNESS ERROR: {}", e);
                    2
                }
            }
        }
        "replay" => replay::replay(args.get(2).map(|s| s.as_str()).unwrap_or("")),
        "minimise" => minimise::run(args.get(2).map(|s| s.as_str()).unwrap_or(""), args.get(3).map(|s| s.as_str()).unwrap_or("")),
        "gen" => {
            // print case idx of a property (debugging aid)
            let p = props::by_id(arg(&args, "--prop").unwrap_or("")).expect("unknown property");
            let idx: u64 = arg(&args, "--idx").and_then(|s| s.parse().ok()).unwrap_or(0);
            let c = p.gen(props::case_seed(seed, p.id(), idx), idx, tier_of(arg(&args, "--tier")));
            println!("{}", c.to_json().pretty());
            0
        }
        "find" => {
            // indices of the cases whose "source" parameter contains a needle (debugging aid)
            let p = props::by_id(arg(&args, "--prop").unwrap_or("")).expect("unknown property");
            let needle = arg(&args, "--source").unwrap_or("");
            let tier = tier_of(arg(&args, "--tier"));
            let max: u64 = arg(&args, "--max").and_then(|s| s.parse().ok()).unwrap_or(p.runs(tier));
            for idx in 0..max {
                let c = p.gen(props::case_seed(seed, p.id(), idx), idx, tier);
                let src = c.params.get("source").and_then(|j| j.str().map(|s| s.to_string())).unwrap_or_default();
                if src.contains(needle) {
                    println!("{} {} ops={}", idx, src, c.ops.len());
                }
            }
            0
        }
        "native-c07" => {
            #[cfg(feature = "native")]
            {
                native_c07::run(seed, tier_of(arg(&args, "--tier")), &arg(&args, "--verif-dir").map(|s| s.to_string()).unwrap_or_else(core::rt::verif_dir))
            }
            #[cfg(not(feature = "native"))]
            {
                eprintln!("native-c07 needs the build against the real rayon (simnative)");
                2
            }
        }
        "selftest" => {
            println!("hash seam ok; engine = {}", pool::ENGINE);
            0
        }
        "runs" => {
            // number of cases of a tier (used by ./check to size the cross-check)
            match props::by_id(arg(&args, "--prop").unwrap_or("")) {
                Some(p) => {
                    println!("{}", p.runs(tier_of(arg(&args, "--tier"))));
                    0
                }
                None => 2,
            }
        }
        "list" => {
            for p in props::all() {
                println!("{}", p.id());
            }
            0
        }
        _ => {
            eprintln!("usage: graphsim supervise --prop <ID> --tier quick|thorough [--seed N] [--workers N] [--runs N]\n       graphsim replay <file> | minimise <in> <out> | fingerprints --prop <ID> --runs N | gen --prop <ID> --idx N | selftest | list");
            2
        }
    };
    std::process::exit(code);
}
