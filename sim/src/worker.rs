//! Worker process: executes the cases idx = from, from+stride, ... < to of one property and reports
//! line by line on stdout. The supervisor restarts it after the case it died in, if it dies.
use crate::core::json::J;
use crate::props::{self, Prop, Tier};
use crate::runner;
use std::collections::{BTreeMap, HashSet};
use std::io::Write;

pub struct WorkerArgs {
    pub prop: String,
    pub tier: Tier,
    pub seed: u64,
    pub from: u64,
    pub to: u64,
    pub stride: u64,
}

struct Acc {
    counters: BTreeMap<String, u64>,
    nt: HashSet<u64>,
    states: HashSet<u64>,
    fps: HashSet<u64>,
    cases: u64,
    steps: u64,
    calls: u64,
    max_steps: u64,
    max_frac_ppm: u64,
    viol_cases: u64,
}

impl Acc {
    fn new() -> Acc {
        Acc { counters: BTreeMap::new(), nt: HashSet::new(), states: HashSet::new(), fps: HashSet::new(), cases: 0, steps: 0, calls: 0, max_steps: 0, max_frac_ppm: 0, viol_cases: 0 }
    }
    fn flush(&mut self, out: &mut impl Write) {
        let mut j = J::obj();
        j.put("cases", J::U(self.cases));
        j.put("steps", J::U(self.steps));
        j.put("calls", J::U(self.calls));
        j.put("max_steps", J::U(self.max_steps));
        j.put("max_frac_ppm", J::U(self.max_frac_ppm));
        j.put("viol_cases", J::U(self.viol_cases));
        j.put("counters", J::Obj(self.counters.iter().map(|(k, v)| (k.clone(), J::U(*v))).collect()));
        let _ = writeln!(out, "STATS {}", j.to_string());
        for (tag, set) in [("NT", &self.nt), ("ST", &self.states), ("FP", &self.fps)] {
            let v: Vec<&u64> = set.iter().collect();
            for ch in v.chunks(512) {
                let mut s = String::with_capacity(ch.len() * 17 + 4);
                s.push_str(tag);
                for x in ch {
                    s.push(' ');
                    s.push_str(&format!("{:x}", x));
                }
                let _ = writeln!(out, "{}", s);
            }
        }
        let _ = out.flush();
        *self = Acc::new();
    }
}

pub fn run(a: WorkerArgs) -> i32 {
    let prop: &'static dyn Prop = match props::by_id(&a.prop) {
        Some(p) => p,
        None => {
            eprintln!("unknown property {}", a.prop);
            return 2;
        }
    };
    let stdout = std::io::stdout();
    let mut out = std::io::BufWriter::with_capacity(1 << 16, stdout.lock());
    let mut acc = Acc::new();
    let mut idx = a.from;
    let mut printed_viol = 0;
    let mut samples = 0;
    let mut hangs = 0u64;
    let emit_fp = std::env::var("VERIF_EMIT_FP").is_ok();
    while idx < a.to {
        // unbuffered marker: the supervisor must know which case was running if this process dies
        let _ = writeln!(out, "B {}", idx);
        let _ = out.flush();
        let cseed = props::case_seed(a.seed, prop.id(), idx);
        let case = prop.gen(cseed, idx, a.tier);
        if samples < 2 && (idx / a.stride.max(1)) % 97 == 3 {
            let _ = writeln!(out, "SAMPLE {}", case.to_json().to_string());
            samples += 1;
        }
        let r = runner::run_case(prop, &case);
        acc.cases += 1;
        acc.steps += r.steps;
        acc.calls += r.calls;
        acc.max_steps = acc.max_steps.max(r.max_steps);
        acc.max_frac_ppm = acc.max_frac_ppm.max(r.max_frac_ppm);
        acc.fps.insert(r.fp);
        for x in r.nt {
            acc.nt.insert(x);
        }
        for x in r.states {
            acc.states.insert(x);
        }
        hangs += r.counters.get("hangs_contained").copied().unwrap_or(0);
        for (k, v) in r.counters {
            if k.starts_with("max.") {
                let e = acc.counters.entry(k).or_insert(0);
                if v > *e {
                    *e = v
                }
            } else {
                *acc.counters.entry(k).or_insert(0) += v;
            }
        }
        if !r.viol.is_empty() {
            acc.viol_cases += 1;
            if printed_viol < 40 {
                printed_viol += 1;
                let v = J::Arr(r.viol.iter().map(|v| J::obj().set("oracle", J::s(&v.oracle)).set("sig", J::s(&v.sig)).set("detail", J::s(&v.detail))).collect());
                let j = J::obj().set("idx", J::U(idx)).set("case", case.to_json()).set("violations", v);
                let _ = writeln!(out, "V {}", j.to_string());
            } else {
                for v in &r.viol {
                    let _ = writeln!(out, "VS {}", J::Arr(vec![J::s(&v.oracle), J::s(&v.sig)]).to_string());
                }
            }
        }
        if emit_fp {
            let _ = writeln!(out, "E {} {:x}", idx, r.fp);
        }
        if acc.cases >= 4000 {
            acc.flush(&mut out);
        }
        idx += a.stride.max(1);
        if hangs >= 3 && idx < a.to {
            // every contained hang leaves a parked thread holding its memory: recycle this process
            acc.flush(&mut out);
            let _ = writeln!(out, "RECYCLE {}", idx);
            let _ = out.flush();
            return crate::runner::EXIT_RECYCLE;
        }
    }
    acc.flush(&mut out);
    let _ = writeln!(out, "DONE");
    let _ = out.flush();
    0
}
