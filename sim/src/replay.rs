//! Replay files: one explicit case plus the violation it produced. `graphsim replay <file>` re-executes it
//! in a fresh process and exits 1 iff the same oracle fires again.
use crate::core::case::*;
use crate::core::json::J;
use crate::props::{self, Tier};

pub struct Replay {
    pub case: Case,
    pub oracle: String,
    pub sig: String,
    pub detail: String,
    pub minimised: bool,
    pub tier: Tier,
}

impl Replay {
    pub fn to_json(&self) -> J {
        let mut j = self.case.to_json();
        j.put("oracle", J::s(&self.oracle));
        j.put("sig", J::s(&self.sig));
        j.put("detail", J::s(&self.detail));
        j.put("minimised", J::Bool(self.minimised));
        j.put("tier", J::s(self.tier.name()));
        j
    }
    pub fn load(path: &str) -> Result<Replay, String> {
        let s = std::fs::read_to_string(path).map_err(|e| format!("{}: {}", path, e))?;
        let j = J::parse(&s)?;
        Ok(Replay {
            case: Case::from_json(&j)?,
            oracle: j.get("oracle").and_then(|x| x.str()).unwrap_or("").to_string(),
            sig: j.get("sig").and_then(|x| x.str()).unwrap_or("").to_string(),
            detail: j.get("detail").and_then(|x| x.str()).unwrap_or("").to_string(),
            minimised: j.get("minimised").and_then(|x| x.bool()).unwrap_or(false),
            tier: if j.get("tier").and_then(|x| x.str()) == Some("thorough") { Tier::Thorough } else { Tier::Quick },
        })
    }
}

/// exit 1 (and the VIOLATION line) iff the recorded oracle fires again; 0 if the case passes; 2 on harness error
pub fn replay(path: &str) -> i32 {
    let r = match Replay::load(path) {
        Ok(r) => r,
        Err(e) => {
            eprintln!("HARNESS ERROR: cannot load replay file: {}", e);
            return 2;
        }
    };
    let prop = match props::by_id(&r.case.prop) {
        Some(p) => p,
        None => {
            eprintln!("HARNESS ERROR: unknown property {}", r.case.prop);
            return 2;
        }
    };
    let res = crate::runner::run_case(prop, &r.case);
    let same: Vec<&Violation> = res.viol.iter().filter(|v| v.oracle == r.oracle).collect();
    if let Some(v) = same.first() {
        println!("VIOLATION property={} replay={}", prop.id(), path);
        println!("  oracle={} sig={:?}", v.oracle, v.sig);
        println!("  {}", v.detail);
        println!("  fingerprint={:016x}", res.fp);
        1
    } else if let Some(v) = res.viol.first() {
        println!("replay: the recorded oracle {} did not fire, but {} did: {}", r.oracle, v.oracle, v.detail);
        println!("VIOLATION property={} replay={}", prop.id(), path);
        1
    } else {
        println!("replay: no violation (fingerprint={:016x})", res.fp);
        0
    }
}
