//! Seam S. With the stub (`simrayon` patched in for `rayon`) the pool size and the whole schedule are a
//! function of `(sched_seed, pool)`. In the `native` build (real rayon) only the pool size is controlled
//! and the schedule is whatever the OS does — used for cross-checks, never as the deciding engine.
#[derive(Clone, Debug, Default)]
pub struct PoolStats {
    pub jobs: u64,
    pub leaves: u64,
    pub splits: u64,
    pub steals: u64,
    pub joins: u64,
    pub installs: u64,
    pub trace: u64,
}

#[cfg(not(feature = "native"))]
mod imp {
    use super::PoolStats;
    pub const ENGINE: &str = "simrayon (seeded simulated work-stealing scheduler, stub patched in for rayon)";
    pub const SIMULATED: bool = true;
    pub fn begin(seed: u64, threads: usize) {
        rayon::sim::begin(seed, threads);
    }
    pub fn end() -> PoolStats {
        let s = rayon::sim::end();
        PoolStats { jobs: s.jobs, leaves: s.leaves, splits: s.splits, steals: s.steals, joins: s.joins, installs: s.installs, trace: s.trace }
    }
    /// run `f` inside a caller-installed pool of `threads` workers
    pub fn with_pool<R>(threads: usize, f: impl FnOnce() -> R) -> R {
        rayon::ThreadPoolBuilder::new().num_threads(threads.max(1)).build().unwrap().install(f)
    }
    /// run `f` under the environment's global pool (already configured by `begin`)
    pub fn scoped<R>(_threads: usize, f: impl FnOnce() -> R) -> R {
        f()
    }
}

#[cfg(feature = "native")]
mod imp {
    use super::PoolStats;
    pub const ENGINE: &str = "real rayon (OS-scheduled worker threads; schedule not controlled)";
    pub const SIMULATED: bool = false;
    pub fn begin(_seed: u64, _threads: usize) {}
    pub fn end() -> PoolStats {
        PoolStats::default()
    }
    pub fn with_pool<R: Send>(threads: usize, f: impl FnOnce() -> R + Send) -> R {
        rayon::ThreadPoolBuilder::new().num_threads(threads.max(1)).build().unwrap().install(f)
    }
    /// the real global pool cannot be resized per run: install a pool of the requested size instead
    pub fn scoped<R: Send>(threads: usize, f: impl FnOnce() -> R + Send) -> R {
        with_pool(threads, f)
    }
}

pub use imp::*;
