//! Delta debugging on the explicit case: drop op chunks, drop single ops, shrink batches, unfold restarts,
//! simplify weights and attributes, reduce environments — keeping a candidate only if the same oracle fires.
use crate::core::case::*;
use crate::props::Prop;
use crate::replay::Replay;
use std::time::{Duration, Instant};

/// the same oracle fires (with the same structural signature, when one is given)
/// hangs contained in this process so far: every one leaves a parked thread that keeps its memory
static HANGS: std::sync::atomic::AtomicU64 = std::sync::atomic::AtomicU64::new(0);

fn fails(prop: &'static dyn Prop, case: &Case, oracle: &str, sig: Option<&str>) -> Option<Violation> {
    let r = crate::runner::run_case(prop, case);
    if r.viol.iter().any(|v| v.oracle.ends_with(".hang")) {
        HANGS.fetch_add(1, std::sync::atomic::Ordering::SeqCst);
    }
    r.viol.into_iter().find(|v| v.oracle == oracle && sig.map_or(true, |s| v.sig == s))
}

fn op_shrinks(op: &Op) -> Vec<Op> {
    let mut out = vec![];
    match op {
        Op::AddEdges(v) => {
            for i in 0..v.len() {
                let mut w = v.clone();
                w.remove(i);
                out.push(Op::AddEdges(w));
            }
            if v.len() == 1 {
                out.push(Op::AddEdge(v[0].clone()));
            }
        }
        Op::AddEdgeTuples(v) => {
            for i in 0..v.len() {
                let mut w = v.clone();
                w.remove(i);
                out.push(Op::AddEdgeTuples(w));
            }
        }
        Op::AddNodes(v) => {
            for i in 0..v.len() {
                let mut w = v.clone();
                w.remove(i);
                out.push(Op::AddNodes(w));
            }
        }
        Op::Restart(s, ns, es) => {
            for i in 0..ns.len() {
                let mut w = ns.clone();
                w.remove(i);
                out.push(Op::Restart(*s, w, es.clone()));
            }
            for i in 0..es.len() {
                let mut w = es.clone();
                w.remove(i);
                out.push(Op::Restart(*s, ns.clone(), w));
            }
        }
        Op::Subgraph(v) => {
            for i in 0..v.len() {
                let mut w = v.clone();
                w.remove(i);
                out.push(Op::Subgraph(w));
            }
        }
        Op::AddEdge(e) => {
            if e.attr.is_some() {
                out.push(Op::AddEdge(E { attr: None, ..e.clone() }));
            }
            let w = e.weight();
            if !w.is_nan() && w != 1.0 {
                out.push(Op::AddEdge(E { w: wbits(1.0), ..e.clone() }));
            }
        }
        Op::AddNode(n) => {
            if n.1.is_some() {
                out.push(Op::AddNode((n.0.clone(), None)));
            }
        }
        _ => {}
    }
    out
}

pub fn minimise(prop: &'static dyn Prop, start: &Case, oracle: &str, sig: Option<&str>, budget: Duration) -> (Case, Option<Violation>, u64) {
    let t0 = Instant::now();
    let mut best = start.clone();
    let mut last_v = None;
    let mut evals = 0u64;
    let mut try_case = |cand: &Case, best: &mut Case, last_v: &mut Option<Violation>| -> bool {
        // a candidate that hangs parks a thread for good (up to the byte budget each): stop after three
        if t0.elapsed() > budget || evals > 4000 || HANGS.load(std::sync::atomic::Ordering::SeqCst) >= 3 {
            return false;
        }
        evals += 1;
        if let Some(v) = fails(prop, cand, oracle, sig) {
            *best = cand.clone();
            *last_v = Some(v);
            true
        } else {
            false
        }
    };
    // environments: a single one if possible, keying 0, small pool
    loop {
        let mut progress = false;
        if best.envs.len() > 1 {
            for i in 0..best.envs.len() {
                let mut c = best.clone();
                c.envs = vec![best.envs[i]];
                if try_case(&c, &mut best, &mut last_v) {
                    progress = true;
                    break;
                }
            }
            if !progress && best.envs.len() > 2 {
                for i in 0..best.envs.len() {
                    let mut c = best.clone();
                    c.envs.remove(i);
                    if try_case(&c, &mut best, &mut last_v) {
                        progress = true;
                        break;
                    }
                }
            }
        }
        if !progress {
            break;
        }
    }
    for i in 0..best.envs.len() {
        for (k, p) in [(0u64, best.envs[i].pool), (best.envs[i].keying, 2), (best.envs[i].keying, 1)] {
            if best.envs[i].keying == k && best.envs[i].pool == p {
                continue;
            }
            if p > best.envs[i].pool {
                continue;
            }
            let mut c = best.clone();
            c.envs[i].keying = k;
            c.envs[i].pool = p;
            try_case(&c, &mut best, &mut last_v);
        }
    }
    // a restart that succeeded can become the start of the history
    loop {
        let mut progress = false;
        let snapshot = best.ops.clone();
        for (i, op) in snapshot.iter().enumerate() {
            if let Op::Restart(s, ns, es) = op {
                let mut c = best.clone();
                c.specs = *s;
                let mut ops = vec![Op::AddNodes(ns.clone()), Op::AddEdges(es.clone())];
                ops.extend(best.ops[i + 1..].iter().cloned());
                c.ops = ops;
                if try_case(&c, &mut best, &mut last_v) {
                    progress = true;
                    break;
                }
            }
        }
        if !progress {
            break;
        }
    }
    // ddmin over ops
    let mut chunk = (best.ops.len() / 2).max(1);
    while chunk >= 1 && !best.ops.is_empty() {
        let mut i = 0;
        let mut any = false;
        while i < best.ops.len() {
            let mut c = best.clone();
            let hi = (i + chunk).min(c.ops.len());
            c.ops.drain(i..hi);
            if try_case(&c, &mut best, &mut last_v) {
                any = true;
            } else {
                i += chunk;
            }
        }
        if chunk == 1 && !any {
            break;
        }
        if !any {
            chunk /= 2;
        }
        if chunk == 0 {
            break;
        }
    }
    // inside ops
    loop {
        let mut progress = false;
        'outer: for i in 0..best.ops.len() {
            for cand in op_shrinks(&best.ops[i]) {
                let mut c = best.clone();
                c.ops[i] = cand;
                if try_case(&c, &mut best, &mut last_v) {
                    progress = true;
                    break 'outer;
                }
            }
        }
        if !progress {
            break;
        }
    }
    // property-specific
    loop {
        let mut progress = false;
        for c in prop.shrink(&best) {
            if try_case(&c, &mut best, &mut last_v) {
                progress = true;
                break;
            }
        }
        if !progress {
            break;
        }
    }
    // specs toward the defaults that do not matter
    for idx in 0..96 {
        let s = Specs::from_index(idx);
        if s.directed != best.specs.directed || s == best.specs {
            continue;
        }
        // only try specs that differ in exactly one field
        let d = (s.multi != best.specs.multi) as u8 + (s.self_loops != best.specs.self_loops) as u8 + (s.dedupe != best.specs.dedupe) as u8 + (s.missing != best.specs.missing) as u8 + (s.slf != best.specs.slf) as u8;
        if d != 1 {
            continue;
        }
        let simpler = (s.multi as u8) + (s.self_loops as u8) <= (best.specs.multi as u8) + (best.specs.self_loops as u8) && s.index() < best.specs.index();
        if !simpler {
            continue;
        }
        let mut c = best.clone();
        c.specs = s;
        try_case(&c, &mut best, &mut last_v);
    }
    (best, last_v, evals)
}

/// `graphsim minimise <in> <out>`
pub fn run(inp: &str, out: &str) -> i32 {
    let r = match Replay::load(inp) {
        Ok(r) => r,
        Err(e) => {
            eprintln!("HARNESS ERROR: {}", e);
            return 2;
        }
    };
    let prop = match crate::props::by_id(&r.case.prop) {
        Some(p) => p,
        None => return 2,
    };
    if fails(prop, &r.case, &r.oracle, None).is_none() {
        eprintln!("minimise: the case does not reproduce in this process");
        return 3;
    }
    // keep the structural signature stable while shrinking, if this very case reproduces it
    let sig = if fails(prop, &r.case, &r.oracle, Some(&r.sig)).is_some() { Some(r.sig.as_str()) } else { None };
    let (best, v, evals) = minimise(prop, &r.case, &r.oracle, sig, Duration::from_secs(60));
    let v = v.unwrap_or(Violation { oracle: r.oracle.clone(), sig: r.sig.clone(), detail: r.detail.clone() });
    let rep = Replay { case: best, oracle: v.oracle, sig: v.sig, detail: v.detail, minimised: true, tier: r.tier };
    if std::fs::write(out, rep.to_json().pretty()).is_err() {
        return 2;
    }
    println!("minimise: {} evaluations, {} ops -> {} ops", evals, r.case.ops.len(), rep.case.ops.len());
    0
}
