//! Seeded workload generation: lifecycle histories (swarm-configured) and structured graphs.
//! Nothing here uses `graphrs::generators`, so a generator defect cannot hide an algorithm defect.
use crate::core::case::*;
use crate::core::model::Model;
use crate::core::rng::Rng;

#[derive(Clone, Copy, Debug, PartialEq, Eq)]
pub enum WeightRegime {
    AllNan,
    Dyadic,
    SmallInt,
    Nasty,
    Mixed,
    /// dyadic with zero-weight edges (distances only)
    ZeroDyadic,
    /// ordinary shapes of numbers at the scale 1e-17: absolute tolerances see nothing here
    Tiny,
    /// pairs of weights that differ in the last bits (0.3 vs 0.1+0.2, 1 vs 1+ulp)
    NearEqual,
    /// 1e308-scale, f64::MAX/4, +inf, 1e-308 (container and count properties only)
    Extreme,
    /// weights of very different magnitude in one graph: 1, 1+ulp, 1e-17-scale, 2^24 and 2^24+1
    MixedScale,
    /// exactly summable weights that differ in the 11th-13th digit: 1 + k 2^-j (k = 0..4, j = 35..41), also around 0.5 and 2
    FineDyadic,
    /// finite positive weights whose sums or products overflow: 1e308, 5e307, MAX/4, next to 1 and 1e150
    Overflowing,
    /// unit weights with a few exceptions (2, 0.5, 3, 1.5): a history that is "all ones" for a while
    MostlyOnes,
    /// subnormal weights (k x 1e-310): sums stay below f64::MIN_POSITIVE, quotients by them overflow
    Subnormal,
    /// dyadic weights times 2^400 (about 1e120): every ratio is exact, every product of three overflows
    HugeDyadic,
    /// dyadic weights times 2^-400: every ratio is exact, every product of three underflows to zero
    MinusculeDyadic,
}

impl WeightRegime {
    pub fn draw(&self, rng: &mut Rng) -> f64 {
        match self {
            WeightRegime::AllNan => f64::NAN,
            WeightRegime::Dyadic => (1 + rng.below(32)) as f64 / 8.0,
            WeightRegime::HugeDyadic => (1 + rng.below(32)) as f64 / 8.0 * (2.0f64).powi(400),
            WeightRegime::MinusculeDyadic => (1 + rng.below(32)) as f64 / 8.0 * (2.0f64).powi(-400),
            WeightRegime::SmallInt => (1 + rng.below(5)) as f64,
            WeightRegime::Nasty => *rng.pick(&[0.1, 0.2, 0.3, 0.7, 1.1, 0.15, 2.5, 0.30000000000000004]),
            WeightRegime::ZeroDyadic => {
                if rng.chance(1, 5) {
                    0.0
                } else {
                    (1 + rng.below(16)) as f64 / 8.0
                }
            }
            WeightRegime::Tiny => (1 + rng.below(32)) as f64 / 8.0 * 1e-17,
            WeightRegime::NearEqual => *rng.pick(&[0.3, 0.30000000000000004, 1.0, 1.0000000000000002, 0.7, 0.7000000000000001, 2.5, 0.1, 0.2, 0.09999999999999999]),
            WeightRegime::MixedScale => *rng.pick(&[1.0, 1.0000000000000002, 1.0, 2.5e-17, 5e-17, 1e-17, 16777216.0, 16777217.0, 0.5, 1.00000001]),
            WeightRegime::FineDyadic => *rng.pick(&[1.0, 1.0, 1.0, 2.0, 0.5]) + rng.below(5) as f64 * (0.5f64).powi(*rng.pick(&[41, 41, 40, 38, 35])),
            WeightRegime::Overflowing => *rng.pick(&[1e308, 5e307, f64::MAX / 4.0, 1e308, 1.0, 1e150, 1e160]),
            WeightRegime::MostlyOnes => {
                if rng.chance(17, 20) {
                    1.0
                } else {
                    *rng.pick(&[2.0, 0.5, 3.0, 1.5])
                }
            }
            WeightRegime::Subnormal => (1 + rng.below(32)) as f64 * 1e-310,
            WeightRegime::Extreme => *rng.pick(&[1e308, f64::MAX / 4.0, f64::INFINITY, 1.0, 1e-308, f64::MAX]),
            WeightRegime::Mixed => {
                if rng.chance(1, 3) {
                    f64::NAN
                } else {
                    (1 + rng.below(16)) as f64 / 4.0
                }
            }
        }
    }
}

const NAME_POOL: &[&str] = &[
    "n7", "a", "Z", "n10", "n2", "B", "b", "", "é", "n1", "m", "zz", "A", "n", "10", "9", "x y", "Ω", "n02", "_", "aa", "Aa", "k", "q", "0",
];

/// 3..=max distinct names in random order: sort order != insertion order almost always
pub fn name_universe(rng: &mut Rng, min: usize, max: usize) -> Vec<String> {
    let k = rng.range(min, max);
    let mut pool: Vec<&str> = NAME_POOL.to_vec();
    rng.shuffle(&mut pool);
    pool.into_iter().take(k).map(|s| s.to_string()).collect()
}

pub struct HistOpts {
    pub specs: Specs,
    pub max_ops: usize,
    pub regime: WeightRegime,
    pub derived: bool,
    pub restart: bool,
    pub names_min: usize,
    pub names_max: usize,
    /// bias towards second edges on existing pairs (C03)
    pub dup_bias: u32,
    /// a large universe (40-70 names), hubs of degree > 32 and batches of 64-100 edges
    pub big: bool,
}

pub fn regime_any(rng: &mut Rng, allow_mixed: bool) -> WeightRegime {
    regime_any2(rng, allow_mixed, false)
}
pub fn regime_any2(rng: &mut Rng, allow_mixed: bool, allow_extreme: bool) -> WeightRegime {
    let v = if allow_mixed && allow_extreme {
        vec![WeightRegime::AllNan, WeightRegime::Dyadic, WeightRegime::SmallInt, WeightRegime::Nasty, WeightRegime::Mixed, WeightRegime::Mixed, WeightRegime::NearEqual, WeightRegime::Tiny, WeightRegime::Extreme]
    } else if allow_mixed {
        vec![WeightRegime::AllNan, WeightRegime::Dyadic, WeightRegime::SmallInt, WeightRegime::Nasty, WeightRegime::Mixed, WeightRegime::Mixed, WeightRegime::NearEqual, WeightRegime::Tiny]
    } else {
        vec![WeightRegime::AllNan, WeightRegime::Dyadic, WeightRegime::SmallInt, WeightRegime::Nasty]
    };
    *rng.pick(&v)
}

/// history length: 0..=max, median around 8, long tail
pub fn hist_len(rng: &mut Rng, max: usize) -> usize {
    let r = rng.below(100);
    let l = if r < 4 {
        0
    } else if r < 30 {
        rng.range(1, 4)
    } else if r < 70 {
        rng.range(5, 12)
    } else if r < 92 {
        rng.range(13, 24)
    } else {
        rng.range(25, 40)
    };
    l.min(max)
}

struct HistGen<'a> {
    rng: &'a mut Rng,
    names: Vec<String>,
    regime: WeightRegime,
    token: u32,
    model: Model,
    dup_bias: u32,
}

impl<'a> HistGen<'a> {
    fn tok(&mut self) -> Option<u32> {
        if self.rng.chance(1, 4) {
            None
        } else {
            self.token += 1;
            Some(self.token)
        }
    }
    fn any_name(&mut self) -> String {
        self.rng.pick(&self.names).clone()
    }
    fn known_name(&mut self) -> Option<String> {
        if self.model.nodes.is_empty() {
            None
        } else {
            let i = self.rng.below(self.model.nodes.len());
            Some(self.model.nodes[i].0.clone())
        }
    }
    fn unknown_name(&mut self) -> Option<String> {
        let v: Vec<String> = self.names.iter().filter(|n| !self.model.has(n)).cloned().collect();
        if v.is_empty() {
            None
        } else {
            Some(self.rng.pick(&v).clone())
        }
    }
    fn weight(&mut self) -> f64 {
        let r = self.regime;
        r.draw(self.rng)
    }
    fn edge(&mut self) -> E {
        let r = self.rng.below(100) as u32;
        let (u, v) = if r < self.dup_bias && !self.model.edges.is_empty() {
            // an existing pair, same or opposite orientation
            let i = self.rng.below(self.model.edges.len());
            let e = &self.model.edges[i];
            if self.rng.chance(1, 2) {
                (e.u.clone(), e.v.clone())
            } else {
                (e.v.clone(), e.u.clone())
            }
        } else if r < self.dup_bias + 10 {
            let n = self.any_name();
            (n.clone(), n)
        } else if r < self.dup_bias + 25 {
            (self.known_name().unwrap_or_else(|| self.names[0].clone()), self.known_name().unwrap_or_else(|| self.names[0].clone()))
        } else {
            (self.any_name(), self.any_name())
        };
        let w = if r < self.dup_bias && self.regime != WeightRegime::AllNan && self.regime != WeightRegime::Mixed {
            // second edge: smaller / equal / larger weight than something plausible
            self.weight()
        } else {
            self.weight()
        };
        E { u, v, w: wbits(w), attr: self.tok() }
    }
    /// an element the current specs reject, if there is one
    fn rejected_edge(&mut self, batch_so_far: &[E]) -> Option<E> {
        let s = self.model.specs;
        let mut opts: Vec<E> = vec![];
        if !s.self_loops && s.slf == Slf::Error {
            if let Some(n) = self.known_name() {
                opts.push(E { u: n.clone(), v: n, w: wbits(self.weight()), attr: self.tok() });
            }
        }
        if s.missing == Missing::Error {
            if let (Some(u), Some(k)) = (self.unknown_name(), self.known_name()) {
                if self.rng.chance(1, 2) {
                    opts.push(E { u, v: k, w: wbits(self.weight()), attr: self.tok() });
                } else {
                    opts.push(E { u: k, v: u, w: wbits(self.weight()), attr: self.tok() });
                }
            }
        }
        if !s.multi && s.dedupe == Dedupe::Error {
            let mut cands: Vec<(String, String)> = self.model.edges.iter().map(|e| (e.u.clone(), e.v.clone())).collect();
            cands.extend(batch_so_far.iter().filter(|e| s.self_loops || e.u != e.v).map(|e| (e.u.clone(), e.v.clone())));
            if !cands.is_empty() {
                let (a, b) = self.rng.pick(&cands).clone();
                let (a, b) = if !s.directed && self.rng.chance(1, 2) { (b, a) } else { (a, b) };
                opts.push(E { u: a, v: b, w: wbits(self.weight()), attr: self.tok() });
            }
        }
        if opts.is_empty() {
            None
        } else {
            let i = self.rng.below(opts.len());
            Some(opts.swap_remove(i))
        }
    }
    fn batch(&mut self) -> Vec<E> {
        let len = self.rng.range(0, 5);
        let mut v: Vec<E> = (0..len).map(|_| self.edge()).collect();
        if len >= 1 && self.rng.chance(1, 6) {
            // the very same edge value twice (a template edge added repeatedly)
            let e = v[self.rng.below(v.len())].clone();
            let at = self.rng.below(v.len() + 1);
            v.insert(at, e);
        }
        if self.rng.chance(1, 2) {
            let k = self.rng.below(len + 1);
            if let Some(e) = self.rejected_edge(&v[..k.min(v.len())]) {
                v.insert(k.min(v.len()), e);
            }
        }
        v
    }
    fn node(&mut self) -> NodeSpec {
        let n = if self.rng.chance(1, 2) { self.known_name().unwrap_or_else(|| self.names[0].clone()) } else { self.any_name() };
        (n, self.tok())
    }
}

/// A lifecycle history; the model is run alongside so that generators can aim at the current state.
pub fn gen_history(rng: &mut Rng, o: &HistOpts) -> Vec<Op> {
    if o.big {
        return gen_big_history(rng, o);
    }
    let names = name_universe(rng, o.names_min, o.names_max);
    let len = hist_len(rng, o.max_ops);
    // swarm: op-mix weights for this run
    let mut mix: Vec<u32> = vec![
        rng.range(0, 6) as u32,  // add_node
        rng.range(0, 3) as u32,  // add_nodes
        rng.range(2, 10) as u32, // add_edge
        rng.range(0, 3) as u32,  // add_edge_tuple
        rng.range(0, 5) as u32,  // add_edges
        rng.range(0, 3) as u32,  // add_edge_tuples
        if o.restart { rng.range(0, 2) as u32 } else { 0 },
        if o.derived { rng.range(1, 4) as u32 } else { 0 },
    ];
    if mix.iter().sum::<u32>() == 0 {
        mix[2] = 1;
    }
    let mut g = HistGen { rng, names, regime: o.regime, token: 0, model: Model::new(o.specs), dup_bias: o.dup_bias };
    let mut ops = vec![];
    // with missing == Error most histories need nodes first
    if o.specs.missing == Missing::Error && g.rng.chance(4, 5) {
        let k = g.rng.range(1, g.names.len());
        let ns: Vec<NodeSpec> = (0..k).map(|i| (g.names[i].clone(), None)).collect();
        let op = Op::AddNodes(ns);
        g.model.apply(&op);
        ops.push(op);
    }
    for _ in 0..len {
        let op = match g.rng.weighted(&mix) {
            0 => Op::AddNode(g.node()),
            1 => {
                let k = g.rng.range(0, 4);
                Op::AddNodes((0..k).map(|_| g.node()).collect())
            }
            2 => {
                if g.rng.chance(1, 6) {
                    match g.rejected_edge(&[]) {
                        Some(e) => Op::AddEdge(e),
                        None => Op::AddEdge(g.edge()),
                    }
                } else {
                    Op::AddEdge(g.edge())
                }
            }
            3 => {
                let e = g.edge();
                Op::AddEdgeTuple(e.u, e.v)
            }
            4 => Op::AddEdges(g.batch()),
            5 => Op::AddEdgeTuples(g.batch().into_iter().map(|e| (e.u, e.v)).collect()),
            6 => {
                let specs = if g.rng.chance(1, 2) { g.model.specs } else { Specs::from_index(g.rng.below(96)) };
                let k = g.rng.range(0, g.names.len());
                let ns: Vec<NodeSpec> = (0..k).map(|_| g.node()).collect();
                let saved = g.model.clone();
                // edges are drawn against a scratch model with the new specs
                g.model = Model::new(specs);
                for n in &ns {
                    g.model.add_node(n);
                }
                let es = g.batch();
                g.model = saved;
                Op::Restart(specs, ns, es)
            }
            _ => match g.rng.below(4) {
                0 => {
                    let k = g.rng.range(0, g.names.len());
                    let mut s: Vec<String> = (0..k).map(|_| g.any_name()).collect();
                    if g.rng.chance(1, 4) {
                        s.push("absent!".to_string());
                    }
                    Op::Subgraph(s)
                }
                1 => Op::Reverse,
                2 => Op::SetWeights(wbits(*g.rng.pick(&[1.0, 0.5, 2.25, f64::NAN, 0.0, 7.0]))),
                _ => Op::ToSingle,
            },
        };
        let failed = g.model.apply(&op).is_err();
        ops.push(op.clone());
        if failed && matches!(op, Op::AddEdges(_)) && g.rng.chance(1, 3) {
            // a failed batch is retried after the cause was (perhaps) removed: the same edge values again
            if let Some(n) = g.unknown_name() {
                let fix = Op::AddNode((n, None));
                g.model.apply(&fix);
                ops.push(fix);
            }
            g.model.apply(&op);
            ops.push(op);
        }
    }
    ops
}

/// Size thresholds are fault lines too: hubs with more than 32 neighbours, batches of 64-100 edges, a
/// universe of 40-70 names whose insertion order is unrelated to their sort order, hubs inserted late.
fn gen_big_history(rng: &mut Rng, o: &HistOpts) -> Vec<Op> {
    // one big history in three is scaled up so that batches cross 128 / 256 / 512 / 1 024 elements (bulk paths of
    // batch insertion), with names to match so that late elements still name nodes not seen before
    let scale = *rng.pick(&[1usize, 1, 1, 1, 2, 4, 4, 8, 16]);
    let k = rng.range(40, 70) * scale;
    let mut names: Vec<String> = (0..k).map(|i| format!("{}{}", ["h", "H", "n", "q"][i % 4], i)).collect();
    rng.shuffle(&mut names);
    let hubs: Vec<String> = (0..if rng.chance(2, 3) { 1 } else { 2 }).map(|_| rng.pick(&names).clone()).collect();
    let mut g = HistGen { rng, names: names.clone(), regime: o.regime, token: 0, model: Model::new(o.specs), dup_bias: o.dup_bias };
    let mut ops = vec![];
    // some nodes first (always when missing nodes are an error), the hubs late in the list
    let declare = o.specs.missing == Missing::Error || g.rng.chance(1, 2);
    if declare {
        let mut ns: Vec<String> = names.iter().filter(|n| !hubs.contains(n)).cloned().collect();
        let keep = if o.specs.missing == Missing::Error { ns.len() } else { g.rng.range(0, ns.len()) };
        ns.truncate(keep);
        ns.extend(hubs.iter().cloned());
        let op = Op::AddNodes(ns.into_iter().map(|n| (n, None)).collect());
        g.model.apply(&op);
        ops.push(op);
    }
    let batches = g.rng.range(1, 3);
    for _ in 0..batches {
        let len = g.rng.range(64, 100) * scale;
        let mut v: Vec<E> = vec![];
        for _ in 0..len {
            let e = if g.rng.chance(2, 3) {
                let h = g.rng.pick(&hubs).clone();
                let x = g.any_name();
                let w = g.weight();
                if g.rng.chance(1, 2) {
                    E { u: h, v: x, w: wbits(w), attr: g.tok() }
                } else {
                    E { u: x, v: h, w: wbits(w), attr: g.tok() }
                }
            } else {
                g.edge()
            };
            v.push(e);
        }
        if !o.specs.multi && o.specs.dedupe == Dedupe::Error {
            // under the rejecting duplicate policy an accidental duplicate would end the batch after a few
            // edges: keep the pairs distinct so that hubs really reach a high degree, then place the rejected
            // element late
            let directed = o.specs.directed;
            let mut seen: Vec<(String, String)> = g.model.edges.iter().map(|e| (e.u.clone(), e.v.clone())).collect();
            v.retain(|e| {
                let dup = seen.iter().any(|(a, b)| (a == &e.u && b == &e.v) || (!directed && a == &e.v && b == &e.u));
                if !dup {
                    seen.push((e.u.clone(), e.v.clone()));
                }
                !dup
            });
        }
        if g.rng.chance(1, 2) && !v.is_empty() {
            // a rejected element late in the batch, followed by edges naming nodes not seen before
            let kpos = v.len() * 4 / 5 + g.rng.below(v.len() / 5 + 1);
            let kpos = kpos.min(v.len());
            // the model must see the prefix so that "duplicate of an existing pair" can aim at the hub's edges
            let saved = g.model.clone();
            for e in &v[..kpos] {
                g.model.add_edge(e);
            }
            let rej = g.rejected_edge(&[]);
            g.model = saved;
            if let Some(e) = rej {
                v.insert(kpos, e);
            }
        }
        let op = if g.rng.chance(4, 5) { Op::AddEdges(v) } else { Op::AddEdgeTuples(v.into_iter().map(|e| (e.u, e.v)).collect()) };
        let failed = g.model.apply(&op).is_err();
        ops.push(op.clone());
        if failed && g.rng.chance(1, 2) {
            // the failed batch is retried (same edge values, hence the same Arcs) after a missing node was added
            if let Some(n) = g.unknown_name() {
                let fix = Op::AddNode((n, None));
                g.model.apply(&fix);
                ops.push(fix);
            }
            g.model.apply(&op);
            ops.push(op);
        }
    }
    // a short ordinary tail, biased to the hubs' existing pairs
    for _ in 0..g.rng.range(2, 8) {
        let op = match g.rng.below(if o.derived { 8 } else { 5 }) {
            0 => Op::AddNode(g.node()),
            1 => Op::AddEdges(g.batch()),
            5 | 6 => {
                // a selection that is a small fraction of the graph, around a hub half of the time
                let k = g.rng.range(1, 6);
                let mut s: Vec<String> = (0..k).map(|_| g.any_name()).collect();
                if g.rng.chance(1, 2) {
                    s.push(hubs[0].clone());
                    let nb: Vec<String> = g.model.edges.iter().filter(|e| e.u == hubs[0] || e.v == hubs[0]).map(|e| if e.u == hubs[0] { e.v.clone() } else { e.u.clone() }).collect();
                    for _ in 0..g.rng.range(0, 3) {
                        if !nb.is_empty() {
                            s.push(g.rng.pick(&nb).clone());
                        }
                    }
                }
                Op::Subgraph(s)
            }
            7 => match g.rng.below(3) {
                0 => Op::Reverse,
                1 => Op::ToSingle,
                _ => Op::SetWeights(wbits(1.0)),
            },
            _ => Op::AddEdge(g.edge()),
        };
        g.model.apply(&op);
        ops.push(op);
    }
    ops
}

/// Thresholds at which an implementation may switch strategy (serial -> parallel, small-vector -> map) sit
/// at thousands of edges: a history that loads 2 100 - 12 500 edges in a few batches, then a short tail.
fn load_dense(rng: &mut Rng, specs: Specs, regime: WeightRegime) -> (Vec<String>, Vec<Op>, u32) {
    let m_target = *rng.pick(&[2100usize, 2600, 4200, 5000, 8300, 9000, 10500, 12500]);
    let cap = |n: usize| if specs.directed { n * (n - 1) } else { n * (n - 1) / 2 };
    let mut n = 40;
    while cap(n) * 3 / 5 < m_target {
        n += 5;
    }
    n += rng.below(20);
    let mut names: Vec<String> = (0..n).map(|i| format!("{}{}", ["h", "H", "n", "q"][i % 4], i)).collect();
    rng.shuffle(&mut names);
    let mut ops = vec![Op::AddNodes(names.iter().map(|s| (s.clone(), if rng.chance(1, 8) { Some(rng.below(1000) as u32) } else { None })).collect())];
    // distinct pairs (as stored: unordered when undirected), then the extras the kind allows
    let mut pairs: Vec<(usize, usize)> = vec![];
    let p_num = (m_target * 1000 / cap(n)) as u32;
    for u in 0..n {
        for v in 0..n {
            if u == v || (!specs.directed && u > v) {
                continue;
            }
            if rng.chance(p_num, 1000) {
                pairs.push(if !specs.directed && rng.chance(1, 2) { (v, u) } else { (u, v) });
            }
        }
    }
    let distinct_only = !specs.multi && specs.dedupe == Dedupe::Error;
    if !distinct_only {
        // second edges on existing pairs: parallel edges, or inputs for the duplicate policy
        for _ in 0..rng.range(0, pairs.len() / 20) {
            let p = *rng.pick(&pairs);
            pairs.push(if !specs.directed && rng.chance(1, 2) { (p.1, p.0) } else { p });
        }
    }
    if specs.self_loops || specs.slf == Slf::Drop {
        for _ in 0..rng.range(0, 6) {
            let u = rng.below(n);
            pairs.push((u, u));
        }
    }
    rng.shuffle(&mut pairs);
    let mut tok = 0u32;
    let es: Vec<E> = pairs
        .iter()
        .map(|&(u, v)| {
            tok += 1;
            E { u: names[u].clone(), v: names[v].clone(), w: wbits(regime.draw(rng)), attr: if tok % 5 == 0 { None } else { Some(tok) } }
        })
        .collect();
    let mut es = es;
    if specs.multi && !es.is_empty() {
        // the very same edge value again (a caller re-submitting part of a batch passes the same Arcs)
        for _ in 0..rng.range(0, es.len() / 100 + 1) {
            let e = es[rng.below(es.len().min(4000))].clone();
            let at = rng.below(es.len() + 1);
            es.insert(at, e);
        }
    }
    match rng.below(3) {
        0 => ops.push(Op::AddEdges(es)),
        1 => {
            // two or three batches
            let k = rng.range(2, 3);
            let size = es.len() / k + 1;
            for c in es.chunks(size.max(1)) {
                ops.push(Op::AddEdges(c.to_vec()));
            }
        }
        _ => {
            let ns = match ops.pop() {
                Some(Op::AddNodes(ns)) => ns,
                _ => vec![],
            };
            ops.push(Op::Restart(specs, ns, es));
        }
    }
    (names, ops, tok)
}

/// many nodes / a hub of very high degree, sparse otherwise
fn load_sparse(rng: &mut Rng, specs: Specs, regime: WeightRegime, variant: u8) -> (Vec<String>, Vec<Op>, u32) {
    let n = match variant {
        1 => rng.range(2048, 2600),
        2 => rng.range(1100, 1600),
        4 => rng.range(10_001, 13_000),
        _ => rng.range(4100, 4500),
    };
    let mut names: Vec<String> = (0..n).map(|i| format!("{}{}", ["s", "S", "t", "x"][i % 4], i)).collect();
    rng.shuffle(&mut names);
    let mut decl: Vec<NodeSpec> = names.iter().map(|s| (s.clone(), if rng.chance(1, 8) { Some(rng.below(1000) as u32) } else { None })).collect();
    if variant == 1 {
        // a few names are declared twice in the same call, with another attribute (the later one replaces)
        for _ in 0..rng.range(0, 3) {
            let k = rng.below(decl.len());
            let at = rng.range(k + 1, decl.len());
            let dup = (decl[k].0.clone(), Some(7000 + rng.below(100) as u32));
            decl.insert(at, dup);
        }
    }
    let mut ops = vec![Op::AddNodes(decl)];
    let hub = rng.below(n);
    let mut pairs: Vec<(usize, usize)> = vec![];
    if variant == 2 || variant == 3 {
        for v in 0..n {
            if v != hub && rng.chance(97, 100) {
                pairs.push(if rng.chance(1, 2) { (hub, v) } else { (v, hub) });
            }
        }
    }
    let mut seen: std::collections::BTreeSet<(usize, usize)> = pairs.iter().map(|&(u, v)| if specs.directed || u < v { (u, v) } else { (v, u) }).collect();
    for _ in 0..rng.range(n / 4, n) {
        let (u, v) = (rng.below(n), rng.below(n));
        if u == v {
            continue;
        }
        let k = if specs.directed || u < v { (u, v) } else { (v, u) };
        if seen.insert(k) {
            pairs.push((u, v));
        }
    }
    if specs.multi && !pairs.is_empty() {
        // parallel edges: a few small groups, and (half of the time) one group of more than 1 024 on one pair
        for _ in 0..rng.range(2, 12) {
            let p = *rng.pick(&pairs);
            for _ in 0..rng.range(1, 4) {
                pairs.push(if !specs.directed && rng.chance(1, 2) { (p.1, p.0) } else { p });
            }
        }
        if rng.chance(3, 4) {
            let p = *rng.pick(&pairs);
            for _ in 0..rng.range(1030, 1500) {
                pairs.push(p);
            }
        }
        if specs.self_loops {
            let u = rng.below(n);
            for _ in 0..rng.range(1, 3) {
                pairs.push((u, u));
            }
        }
    }
    rng.shuffle(&mut pairs);
    let mut tok = 0u32;
    let mut mk = |rng: &mut Rng, u: usize, v: usize, names: &Vec<String>| {
        tok += 1;
        E { u: names[u].clone(), v: names[v].clone(), w: wbits(regime.draw(rng)), attr: if tok % 5 == 0 { None } else { Some(tok) } }
    };
    let mut first: Vec<E> = pairs.iter().map(|&(u, v)| mk(rng, u, v, &names)).collect();
    if specs.multi && !first.is_empty() {
        // the very same edge value again (a caller re-submitting part of a batch passes the same Arcs)
        for _ in 0..rng.range(1, first.len() / 100 + 2) {
            let e = first[rng.below(first.len())].clone();
            let at = rng.below(first.len() + 1);
            first.insert(at, e);
        }
    }
    ops.push(Op::AddEdges(first));
    let distinct_only = !specs.multi && specs.dedupe == Dedupe::Error;
    if !distinct_only && !pairs.is_empty() {
        // second edges on pairs of the hub (and a few others), in either orientation, in a later call: the
        // adjacency lists are not in position order by then
        let hub_pairs: Vec<(usize, usize)> = pairs.iter().filter(|p| (variant == 2 || variant == 3) && (p.0 == hub || p.1 == hub)).copied().collect();
        let mut second: Vec<E> = vec![];
        for _ in 0..rng.range(3, 40) {
            let p = if !hub_pairs.is_empty() && rng.chance(3, 4) { *rng.pick(&hub_pairs) } else { *rng.pick(&pairs) };
            let (u, v) = if !specs.directed && rng.chance(1, 2) { (p.1, p.0) } else { p };
            second.push(mk(rng, u, v, &names));
        }
        if rng.chance(1, 2) {
            ops.push(Op::AddEdges(second));
        } else {
            // a few one by one, the rest in one call
            let rest = second.split_off(second.len().min(5));
            for e in second {
                ops.push(Op::AddEdge(e));
            }
            if !rest.is_empty() {
                ops.push(Op::AddEdges(rest));
            }
        }
    }
    (names, ops, tok)
}

pub fn gen_huge_history(rng: &mut Rng, specs: Specs, regime: WeightRegime, derived: bool) -> Vec<Op> {
    gen_huge_history_v(rng, specs, regime, derived, &[0])
}

/// a batch of >= 256 edges on a graph of its own that the specs reject late (None when they reject nothing)
fn failing_load(rng: &mut Rng, specs: Specs, regime: WeightRegime) -> Option<Op> {
    let n = rng.range(30, 60);
    let names: Vec<String> = (0..n).map(|i| format!("z{}", i)).collect();
    let mut es: Vec<E> = vec![];
    let mut seen = std::collections::BTreeSet::new();
    let want = rng.range(260, 420);
    let mut guard = 0;
    while es.len() < want && guard < 100_000 {
        guard += 1;
        let (u, v) = (rng.below(n), rng.below(n));
        if u == v {
            continue;
        }
        let k = if specs.directed || u < v { (u, v) } else { (v, u) };
        if !seen.insert(k) {
            continue;
        }
        es.push(E { u: names[u].clone(), v: names[v].clone(), w: wbits(regime.draw(rng)), attr: None });
    }
    let mut rejected: Vec<E> = vec![];
    if !specs.self_loops && specs.slf == Slf::Error {
        rejected.push(E { u: names[0].clone(), v: names[0].clone(), w: wbits(regime.draw(rng)), attr: None });
    }
    if specs.missing == Missing::Error {
        rejected.push(E { u: names[1].clone(), v: "never declared".to_string(), w: wbits(regime.draw(rng)), attr: None });
    }
    if !specs.multi && specs.dedupe == Dedupe::Error {
        rejected.push(es[rng.below(es.len())].clone());
    }
    if rejected.is_empty() {
        return None;
    }
    let r = rejected.swap_remove(rng.below(rejected.len()));
    let at = es.len() - rng.below(es.len() / 5);
    es.insert(at, r);
    // a few more edges after the rejected one (they must not be applied)
    Some(Op::Restart(specs, names.into_iter().map(|s| (s, None)).collect(), es))
}

/// `variants`: 0 = dense (45-180 nodes, 2 100 - 12 500 edges), 1 = many nodes (2 048 - 2 600 declared in one call,
/// a few names repeated), 2 = a hub with 1 100 - 1 600 neighbours, 3 = a hub with 4 100 - 4 500 neighbours,
/// 4 = 10 001 - 13 000 nodes; multi-edge graphs get groups of parallel edges, one of them of more than 1 024
pub fn gen_huge_history_v(rng: &mut Rng, specs: Specs, regime: WeightRegime, derived: bool, variants: &[u8]) -> Vec<Op> {
    let variant = *rng.pick(variants);
    let mut pre: Vec<Op> = vec![];
    if rng.chance(1, 2) {
        // fault, then recovery, at scale: a large load into ANOTHER graph fails part-way on this thread first
        if let Some(op) = failing_load(rng, specs, regime) {
            pre.push(op);
        }
    }
    let (names, mut ops, tok): (Vec<String>, Vec<Op>, u32) = if variant == 0 {
        let (names, ops, tok) = load_dense(rng, specs, regime);
        (names, ops, tok)
    } else {
        load_sparse(rng, specs, regime, variant)
    };
    pre.append(&mut ops);
    let mut ops = pre;
    // a short tail on the loaded graph
    let mut model = Model::new(specs);
    for op in &ops {
        model.apply(op);
    }
    let mut g = HistGen { rng, names: names.clone(), regime, token: tok, model, dup_bias: 40 };
    for _ in 0..g.rng.range(1, 4) {
        let op = match g.rng.below(if derived { 10 } else { 4 }) {
            0 => Op::AddNode(g.node()),
            1 => Op::AddEdges(g.batch()),
            2 | 3 => Op::AddEdge(g.edge()),
            4 | 5 => Op::Reverse,
            6 => Op::ToSingle,
            7 => Op::SetWeights(wbits(*g.rng.pick(&[1.0, 0.5, f64::NAN]))),
            _ => {
                // most of the graph, or a small part of it
                let keep = if g.rng.chance(1, 2) { 9 } else { 1 };
                let mut s: Vec<String> = names.iter().filter(|_| g.rng.chance(keep, 10)).cloned().collect();
                if keep == 1 {
                    // a small selection around a few stored edges, pairs that hold parallel edges first
                    s.truncate(g.rng.range(0, 6));
                    let mut count: std::collections::BTreeMap<(&str, &str), usize> = std::collections::BTreeMap::new();
                    for e in &g.model.edges {
                        *count.entry((e.u.as_str(), e.v.as_str())).or_default() += 1;
                    }
                    let parallel: Vec<(String, String)> = count.iter().filter(|(_, c)| **c >= 2).map(|(k, _)| (k.0.to_string(), k.1.to_string())).collect();
                    for _ in 0..g.rng.range(1, 4) {
                        if !parallel.is_empty() && g.rng.chance(2, 3) {
                            let (a, b) = g.rng.pick(&parallel).clone();
                            s.push(a);
                            s.push(b);
                        } else if !g.model.edges.is_empty() {
                            let i = g.rng.below(g.model.edges.len());
                            let (a, b) = (g.model.edges[i].u.clone(), g.model.edges[i].v.clone());
                            s.push(a);
                            s.push(b);
                        }
                    }
                }
                g.rng.shuffle(&mut s);
                Op::Subgraph(s)
            }
        };
        g.model.apply(&op);
        ops.push(op);
    }
    if derived && specs.multi && g.rng.chance(2, 3) {
        // groups of parallel edges (one of them may hold more than a thousand) are collapsed at the end
        let op = Op::ToSingle;
        g.model.apply(&op);
        ops.push(op);
    }
    ops
}

/// Tens of thousands of nodes (47 000 - 70 000: above 2^15.5 and around 2^16): a source joined to every other node
/// (a fringe of more than 65 536 open entries), a sparse second level that shortens some of those entries, a chain,
/// two diamonds (ties) and isolated nodes. Dyadic weights, so every sum is exact.
pub fn gen_giant_graph(rng: &mut Rng, directed: bool) -> (Specs, Vec<Op>) {
    let specs = Specs::kind(directed, false, false);
    let n = *rng.pick(&[47_000usize, 52_000, 66_500, 70_000, 80_000]);
    let names: Vec<String> = (0..n).map(|i| format!("g{}", i)).collect();
    let isolated = rng.range(5, 400);
    let leaves = n - isolated - 12;
    let mut es: Vec<(usize, usize, f64)> = vec![];
    // node 0 is the source; leaves 1..=leaves. The source reaches at most 58 000 - 64 500 of them directly (one burst
    // that stays below 2^16 fringe entries); the others hang below a directly reached leaf
    let direct = leaves.min(rng.range(58_000, 64_500));
    let mut len = vec![0.0f64; leaves + 1];
    for v in 1..=leaves {
        if v <= direct {
            len[v] = 10.0 + rng.below(64_000) as f64 / 64.0;
            es.push((0, v, len[v]));
        } else {
            es.push((1 + rng.below(direct), v, 1.0 + rng.below(640) as f64 / 64.0));
        }
    }
    // a relay next to the source shortens 6 000 - 10 000 of the direct entries by 1/256: a second burst that takes
    // the fringe above 2^16 entries while superseded entries are still in it
    let relay = leaves; // the last leaf doubles as the relay (it is reached first: length 1)
    if relay > direct || relay >= 1 {
        let r = relay.min(direct);
        len[r] = 1.0;
        for e in es.iter_mut() {
            if e.0 == 0 && e.1 == r {
                e.2 = 1.0;
            }
        }
        for _ in 0..rng.range(6_000, 10_000) {
            let v = 1 + rng.below(direct);
            if v != r && len[v] > 2.0 {
                es.push((r, v, len[v] - 1.0 - 1.0 / 256.0));
            }
        }
    }
    // second level: a near leaf shortens a far one by a little or by a lot
    for _ in 0..leaves / 8 {
        let (u, v) = (1 + rng.below(leaves), 1 + rng.below(leaves));
        if u != v {
            es.push((u, v, *rng.pick(&[1.0 / 256.0, 0.25, 1.0, 7.5, 300.0])));
        }
    }
    // entries that are improved by very little: in the order of their length, a leaf leads to the next longer one
    // by an edge that is 1/256 shorter than the difference
    {
        let mut by_len: Vec<(u64, usize)> = es.iter().filter(|e| e.0 == 0).map(|e| ((e.2 * 256.0) as u64, e.1)).collect();
        by_len.sort();
        for w in by_len.windows(2).step_by(rng.range(5, 12)) {
            let diff = w[1].0 - w[0].0;
            if diff >= 2 {
                es.push((w[0].1, w[1].1, (diff - 1) as f64 / 256.0));
            }
        }
    }
    // a chain and two diamonds behind the last leaf
    let base = leaves + 1;
    es.push((leaves, base, 1.0));
    for i in 0..4 {
        es.push((base + i, base + i + 1, 0.5));
    }
    let d = base + 5;
    es.push((base + 4, d, 1.0));
    es.push((d, d + 1, 1.0));
    es.push((d, d + 2, 1.0));
    es.push((d + 1, d + 3, 1.0));
    es.push((d + 2, d + 3, 1.0));
    es.push((d + 3, d + 4, 2.0));
    es.push((d + 3, d + 5, 2.0));
    es.push((d + 4, d + 6, 2.0));
    es.push((d + 5, d + 6, 2.0));
    let mut seen = std::collections::BTreeSet::new();
    es.retain(|&(u, v, _)| seen.insert(if directed || u <= v { (u, v) } else { (v, u) }));
    rng.shuffle(&mut es);
    let mut ops = vec![Op::AddNodes(names.iter().map(|s| (s.clone(), None)).collect())];
    let edges: Vec<E> = es.iter().map(|&(u, v, w)| E { u: names[u].clone(), v: names[v].clone(), w: wbits(w), attr: None }).collect();
    for c in edges.chunks(4000) {
        ops.push(Op::AddEdges(c.to_vec()));
    }
    (specs, ops)
}

/// A graph of 4 150 - 4 600 nodes in which one hub is adjacent to more than 4 096 of them; sparse otherwise, with a
/// few small separate components and isolated nodes (node-count and degree thresholds).
pub fn gen_hub_graph(rng: &mut Rng, directed: bool, multi: bool, self_loops: bool, regime: WeightRegime) -> (Specs, Vec<Op>) {
    let specs = Specs::kind(directed, multi, self_loops);
    let n = rng.range(4150, 4600);
    let names = node_names(rng, n);
    let hub = rng.below(n);
    let outside = rng.range(3, (n - 4100).max(4)); // nodes the hub is not adjacent to
    let mut not_adjacent: std::collections::BTreeSet<usize> = std::collections::BTreeSet::new();
    while not_adjacent.len() < outside {
        let x = rng.below(n);
        if x != hub {
            not_adjacent.insert(x);
        }
    }
    let mut pairs: Vec<(usize, usize)> = vec![];
    for v in 0..n {
        if v != hub && !not_adjacent.contains(&v) {
            pairs.push(if rng.chance(1, 2) { (hub, v) } else { (v, hub) });
        }
    }
    if rng.chance(1, 2) {
        // a second hub: a search that reaches it late finds most of its neighbours already seen
        let hub2 = (hub + 1 + rng.below(n - 1)) % n;
        let skip = rng.range(3, 40);
        for v in 0..n {
            if v != hub2 && v != hub && !not_adjacent.contains(&v) && (v + hub2) % (n / skip) != 0 {
                pairs.push(if rng.chance(1, 2) { (hub2, v) } else { (v, hub2) });
            }
        }
    }
    // sparse random rest: about n/2 further edges, some of them among the nodes the hub does not reach directly
    for _ in 0..n / 2 {
        let (u, v) = (rng.below(n), rng.below(n));
        if u != v && u != hub && v != hub {
            pairs.push((u, v));
        }
    }
    let na: Vec<usize> = not_adjacent.iter().copied().collect();
    for _ in 0..na.len() {
        let (u, v) = (*rng.pick(&na), rng.below(n));
        if u != v && v != hub {
            pairs.push(if rng.chance(1, 2) { (u, v) } else { (v, u) });
        }
    }
    let mut seen = std::collections::BTreeSet::new();
    pairs.retain(|&(u, v)| seen.insert(if directed || u <= v { (u, v) } else { (v, u) }));
    if self_loops {
        for _ in 0..rng.range(0, 3) {
            let u = rng.below(n);
            pairs.push((u, u));
        }
        if rng.chance(1, 2) {
            pairs.push((hub, hub)); // a self-loop on the node of highest degree
        }
    }
    if multi {
        for _ in 0..rng.range(0, 20) {
            let p = *rng.pick(&pairs);
            pairs.push(p);
        }
    }
    rng.shuffle(&mut pairs);
    let mut ops: Vec<Op> = vec![Op::AddNodes(names.iter().map(|s| (s.clone(), None)).collect())];
    let es: Vec<E> = pairs.iter().map(|&(u, v)| E { u: names[u].clone(), v: names[v].clone(), w: wbits(regime.draw(rng)), attr: None }).collect();
    for c in es.chunks(1000) {
        ops.push(Op::AddEdges(c.to_vec()));
    }
    (specs, ops)
}

/// A dense graph (one to three dense blocks) with 8 200 - 12 500 stored edges, or 2 100 - 5 000.
pub fn gen_dense_graph(rng: &mut Rng, directed: bool, multi: bool, self_loops: bool, regime: WeightRegime) -> (Specs, Vec<Op>) {
    let specs = Specs::kind(directed, multi, self_loops);
    let m_target = *rng.pick(&[1100usize, 1100, 2100, 4200, 8300, 8300, 9000, 10500, 12500, 17000, 17000, 20000]);
    let k = *rng.pick(&[1usize, 1, 2, 3]);
    let cap = |b: usize| if directed { b * (b - 1) } else { b * (b - 1) / 2 };
    let mut b = 20;
    while k * cap(b) * 7 / 10 < m_target {
        b += 3;
    }
    let isolated = rng.below(4);
    let n = k * b + isolated;
    let names = node_names(rng, n);
    let p_num = (m_target * 1000 / (k * cap(b))) as u32;
    let mut pairs: Vec<(usize, usize)> = vec![];
    for blk in 0..k {
        for u in blk * b..(blk + 1) * b {
            for v in blk * b..(blk + 1) * b {
                if u == v || (!directed && u > v) {
                    continue;
                }
                if rng.chance(p_num, 1000) {
                    pairs.push(if !directed && rng.chance(1, 2) { (v, u) } else { (u, v) });
                }
            }
        }
        // one-way bridges between consecutive blocks of a digraph (weak but not strong connection)
        if directed && blk + 1 < k && rng.chance(1, 2) {
            pairs.push((blk * b, (blk + 1) * b));
        }
    }
    if self_loops {
        for _ in 0..rng.range(0, 5) {
            let u = rng.below(n);
            pairs.push((u, u));
        }
    }
    if multi {
        for _ in 0..rng.range(0, pairs.len() / 25) {
            let p = *rng.pick(&pairs);
            pairs.push(if !directed && rng.chance(1, 2) { (p.1, p.0) } else { p });
        }
    }
    rng.shuffle(&mut pairs);
    let mut ops: Vec<Op> = vec![Op::AddNodes(names.iter().map(|s| (s.clone(), None)).collect())];
    let es: Vec<E> = pairs.iter().map(|&(u, v)| E { u: names[u].clone(), v: names[v].clone(), w: wbits(regime.draw(rng)), attr: None }).collect();
    for c in es.chunks(500) {
        ops.push(Op::AddEdges(c.to_vec()));
    }
    // the last operations change the weight of pairs that already exist (replacement under KeepLast, a lighter or
    // heavier parallel edge on a multi-edge graph): counts stay the same, extreme weights move
    let mut specs = specs;
    if !multi {
        specs.dedupe = Dedupe::KeepLast;
    }
    if !es.is_empty() && rng.chance(2, 3) {
        for i in 0..rng.range(1, 3) {
            // the first replacement and half of the others move an extreme on purpose: some pair becomes heavier than the largest weight
            // or lighter than the smallest, or the heaviest / lightest edge itself moves inwards
            let fw = |e: &E| f64::from_bits(e.w);
            let heaviest = es.iter().filter(|e| !fw(e).is_nan()).max_by(|a, b| fw(a).partial_cmp(&fw(b)).unwrap()).cloned();
            let lightest = es.iter().filter(|e| !fw(e).is_nan()).min_by(|a, b| fw(a).partial_cmp(&fw(b)).unwrap()).cloned();
            let (e, w2) = match (if i == 0 { rng.below(4) } else { rng.below(8) }, heaviest, lightest) {
                (0, Some(h), _) => (rng.pick(&es).clone(), fw(&h) * 4.0),
                (1, Some(h), _) => (h.clone(), fw(&h) / 4.0),
                (2, _, Some(l)) => (rng.pick(&es).clone(), fw(&l) / 4.0),
                (3, _, Some(l)) => (l.clone(), fw(&l) * 4.0),
                _ => {
                    let e = rng.pick(&es).clone();
                    let w = fw(&e);
                    (e, if w.is_nan() { w } else if rng.chance(1, 2) { w * 4.0 } else { w / 4.0 })
                }
            };
            let w2 = if fw(&e).is_nan() { fw(&e) } else { w2 };
            ops.push(Op::AddEdge(E { u: e.u.clone(), v: e.v.clone(), w: wbits(w2), attr: None }));
        }
    }
    (specs, ops)
}

// ---------------------------------------------------------------------------------------------
// structured graphs for the algorithm properties

#[derive(Clone, Copy, Debug, PartialEq, Eq)]
pub enum Shape {
    Gnp,
    Path,
    Cycle,
    Star,
    Grid,
    Cliques,
    LayeredDag,
    Union,
    Tree,
    Bipartite,
    NestedScc,
    /// about 1.5 n random edges (for graphs of > 1000 nodes)
    SparseRandom,
    /// a chain of diamonds: 2^k equally long shortest paths across k diamonds
    DiamondChain,
    /// a hub joined to every node of a ring (hub degree n-1, every spoke in two triangles)
    Wheel,
    /// small cliques joined in a ring (several Louvain levels)
    RingOfCliques,
    /// a hub joined to 3-5 identical parts (cliques, cycles or paths of equal weight) by spokes whose weights
    /// are graded in steps of 2^-41 ... 2^-35 or one ulp: alternatives that are nearly, but not exactly, tied
    GradedHub,
    /// circulant graph C_n(1..k): every node has the same degree (k = 2..4 up to 99 nodes, 5..9 from 100 nodes)
    Circulant,
}
pub const ALL_SHAPES: &[Shape] = &[Shape::Gnp, Shape::Path, Shape::Cycle, Shape::Star, Shape::Grid, Shape::Cliques, Shape::LayeredDag, Shape::Union, Shape::Tree, Shape::Bipartite, Shape::NestedScc];

pub struct GraphOpts {
    pub directed: bool,
    pub multi: bool,
    pub self_loops: bool,
    pub n_min: usize,
    pub n_max: usize,
    pub regime: WeightRegime,
    pub shape: Option<Shape>,
    /// sprinkle parallel edges / self-loops when the kind allows them
    pub sprinkle: bool,
}

fn node_names(rng: &mut Rng, n: usize) -> Vec<String> {
    // names whose sort order is a random permutation of their insertion order
    let mut ids: Vec<usize> = (0..n).collect();
    rng.shuffle(&mut ids);
    let style = rng.below(3);
    ids.into_iter()
        .map(|i| match style {
            0 => format!("n{}", i),       // n10 < n2 lexicographically
            1 => format!("v{:03}", i),
            _ => format!("{}{}", (b'a' + (i % 26) as u8) as char, i / 26),
        })
        .collect()
}

/// pairs (u,v) by index for a shape on n nodes
pub fn shape_pairs(rng: &mut Rng, shape: Shape, n: usize, directed: bool) -> Vec<(usize, usize)> {
    let mut e: Vec<(usize, usize)> = vec![];
    if n == 0 {
        return e;
    }
    match shape {
        Shape::Gnp => {
            let p = *rng.pick(&[3u32, 8, 15, 30, 60]);
            let scale = if n > 25 { 2 } else { 1 };
            for u in 0..n {
                for v in 0..n {
                    if u == v || (!directed && u > v) {
                        continue;
                    }
                    if rng.chance(p, 100 * scale) {
                        e.push((u, v));
                    }
                }
            }
        }
        Shape::Path => {
            for i in 1..n {
                e.push((i - 1, i));
            }
        }
        Shape::Cycle => {
            for i in 1..n {
                e.push((i - 1, i));
            }
            if n >= 2 {
                e.push((n - 1, 0));
            }
        }
        Shape::Star => {
            let inward = rng.chance(1, 2);
            for i in 1..n {
                if inward {
                    e.push((i, 0))
                } else {
                    e.push((0, i))
                }
            }
        }
        Shape::Grid => {
            let w = rng.range(2, 7).min(n.max(1));
            for i in 0..n {
                if (i + 1) % w != 0 && i + 1 < n {
                    e.push((i, i + 1));
                }
                if i + w < n {
                    e.push((i, i + w));
                }
            }
        }
        Shape::Cliques => {
            let k = rng.range(2, 5).min(n);
            let size = (n / k).max(1);
            for c in 0..k {
                let lo = c * size;
                let hi = if c == k - 1 { n } else { ((c + 1) * size).min(n) };
                for u in lo..hi {
                    for v in lo..hi {
                        if u < v {
                            e.push((u, v));
                            if directed && rng.chance(1, 2) {
                                e.push((v, u));
                            }
                        }
                    }
                }
                if c + 1 < k && hi < n {
                    e.push((hi - 1, hi)); // bridge
                }
            }
        }
        Shape::LayeredDag => {
            // many equal-length paths: consecutive layers fully or densely joined
            let width = rng.range(2, 4);
            let mut layers: Vec<Vec<usize>> = vec![vec![0]];
            let mut next = 1;
            while next < n {
                let w = width.min(n - next);
                layers.push((next..next + w).collect());
                next += w;
            }
            for l in 1..layers.len() {
                for &u in &layers[l - 1] {
                    for &v in &layers[l] {
                        if rng.chance(5, 6) {
                            e.push((u, v));
                        }
                    }
                }
            }
        }
        Shape::Union => {
            // disjoint equal components (tie-rich): k copies of a small cycle or path
            let size = rng.range(2, 5);
            let mut lo = 0;
            let cyc = rng.chance(1, 2);
            while lo < n {
                let hi = (lo + size).min(n);
                for i in lo + 1..hi {
                    e.push((i - 1, i));
                }
                if cyc && hi - lo >= 3 {
                    e.push((hi - 1, lo));
                }
                lo = hi;
            }
        }
        Shape::Tree => {
            for i in 1..n {
                let p = rng.below(i);
                if rng.chance(1, 2) {
                    e.push((p, i))
                } else {
                    e.push((i, p))
                }
            }
        }
        Shape::Bipartite => {
            let a = (n / 2).max(1);
            for u in 0..a {
                for v in a..n {
                    if rng.chance(3, 4) {
                        e.push((u, v));
                    }
                }
            }
        }
        Shape::SparseRandom => {
            let m = n + n / 2;
            for _ in 0..m {
                let (u, v) = (rng.below(n), rng.below(n));
                if u != v {
                    e.push((u, v));
                }
            }
        }
        Shape::DiamondChain => {
            // s0 -> {a,b} -> s1 -> {a,b} -> s2 ... : three nodes per diamond
            let mut i = 0;
            while i + 3 < n {
                e.push((i, i + 1));
                e.push((i, i + 2));
                e.push((i + 1, i + 3));
                e.push((i + 2, i + 3));
                i += 3;
            }
            // nodes that are left over continue the chain as a plain path (a tail behind the last diamond)
            while i + 1 < n {
                e.push((i, i + 1));
                i += 1;
            }
        }
        Shape::Wheel => {
            for i in 1..n {
                e.push((0, i));
                let j = if i + 1 < n { i + 1 } else { 1 };
                if j != i {
                    e.push((i, j));
                }
            }
        }
        Shape::RingOfCliques => {
            let size = rng.range(3, 5);
            let mut starts = vec![];
            let mut lo = 0;
            while lo < n {
                let hi = (lo + size).min(n);
                for u in lo..hi {
                    for v in u + 1..hi {
                        e.push((u, v));
                    }
                }
                starts.push(lo);
                lo = hi;
            }
            for w in 0..starts.len() {
                let a = starts[w];
                let b = starts[(w + 1) % starts.len()];
                if a != b {
                    e.push((a + (starts.get(w + 1).map(|x| x - a).unwrap_or(n - a)) - 1, b));
                }
            }
            e.retain(|(u, v)| u != v && *u < n && *v < n);
        }
        Shape::Circulant => {
            let k = if n >= 100 { rng.range(5, 9) } else { rng.range(2, 4) };
            for i in 0..n {
                for o in 1..=k {
                    let j = (i + o) % n;
                    if j != i {
                        e.push((i, j));
                    }
                }
            }
        }
        Shape::GradedHub => {
            let size = rng.range(3, 5);
            let kind = rng.below(3);
            let mut lo = 1;
            while lo + size <= n {
                for i in 0..size {
                    for j in i + 1..size {
                        let joined = match kind {
                            0 => true,
                            1 => j == i + 1 || (i == 0 && j == size - 1),
                            _ => j == i + 1,
                        };
                        if joined {
                            e.push((lo + i, lo + j));
                        }
                    }
                }
                e.push((0, lo));
                lo += size;
            }
        }
        Shape::NestedScc => {
            // cycles sharing nodes, cycles of cycles, DAG edges and back edges
            let mut i = 0;
            let mut heads = vec![];
            while i < n {
                let len = rng.range(1, 5).min(n - i);
                for j in i + 1..i + len {
                    e.push((j - 1, j));
                }
                if len >= 2 {
                    e.push((i + len - 1, i));
                }
                heads.push(i);
                i += len;
            }
            for w in heads.windows(2) {
                e.push((w[0], w[1]));
                if rng.chance(1, 3) {
                    e.push((w[1], w[0])); // merges two SCCs
                }
            }
            if heads.len() >= 3 && rng.chance(1, 2) {
                e.push((heads[heads.len() - 1], heads[0]));
            }
            for _ in 0..rng.range(0, 3) {
                e.push((rng.below(n), rng.below(n)));
            }
            e.retain(|(u, v)| u != v);
        }
    }
    // dedupe pairs (undirected: unordered)
    let mut seen = std::collections::BTreeSet::new();
    e.retain(|&(u, v)| {
        let k = if directed || u <= v { (u, v) } else { (v, u) };
        seen.insert(k)
    });
    e
}

/// A structured graph as a history of add_node / add_edge operations (insertion order randomised).
pub fn gen_graph(rng: &mut Rng, o: &GraphOpts) -> (Specs, Vec<Op>) {
    let specs = Specs::kind(o.directed, o.multi, o.self_loops);
    let n = rng.range(o.n_min, o.n_max);
    let shape = o.shape.unwrap_or_else(|| *rng.pick(ALL_SHAPES));
    let names = node_names(rng, n);
    let mut pairs = shape_pairs(rng, shape, n, o.directed);
    if !o.directed {
        // give undirected edges in random orientation
        for p in pairs.iter_mut() {
            if rng.chance(1, 2) {
                *p = (p.1, p.0);
            }
        }
    }
    if o.sprinkle && n > 0 {
        if o.self_loops {
            for _ in 0..rng.range(0, 3) {
                let u = rng.below(n);
                pairs.push((u, u));
            }
        }
        if o.multi && !pairs.is_empty() {
            for _ in 0..rng.range(0, 4) {
                let p = *rng.pick(&pairs);
                pairs.push(if !o.directed && rng.chance(1, 2) { (p.1, p.0) } else { p });
            }
        }
        // a few isolated nodes are produced by shapes themselves (Gnp); add reciprocal edges on digraphs
        if o.directed && rng.chance(1, 2) && !pairs.is_empty() {
            for _ in 0..rng.range(1, 3) {
                let p = *rng.pick(&pairs);
                if p.0 != p.1 && (o.multi || !pairs.contains(&(p.1, p.0))) {
                    pairs.push((p.1, p.0));
                }
            }
        }
    }
    rng.shuffle(&mut pairs);
    let mut ops: Vec<Op> = vec![];
    // nodes first, in name-list order (which is a random permutation of sort order)
    ops.push(Op::AddNodes(names.iter().map(|s| (s.clone(), None)).collect()));
    let graded = shape == Shape::GradedHub && o.regime != WeightRegime::AllNan;
    let delta = if graded { *rng.pick(&[(0.5f64).powi(41), (0.5f64).powi(41), (0.5f64).powi(40), (0.5f64).powi(38), (0.5f64).powi(35), f64::EPSILON]) } else { 0.0 };
    let mut grade = 0;
    for (u, v) in pairs {
        let w = if graded {
            // equal weights everywhere, the spokes of the hub graded
            if (u == 0 || v == 0) && u != v {
                grade += 1;
                1.0 + (grade - 1) as f64 * delta
            } else {
                1.0
            }
        } else {
            o.regime.draw(rng)
        };
        ops.push(Op::AddEdge(E { u: names[u].clone(), v: names[v].clone(), w: wbits(w), attr: None }));
    }
    (specs, ops)
}

/// one of the 8 graph kinds
pub fn kind_from(i: usize) -> (bool, bool, bool) {
    (i & 1 == 1, (i >> 1) & 1 == 1, (i >> 2) & 1 == 1)
}

/// pool size of an environment: mostly 1-16, now and then more workers than a small graph has nodes
pub fn pool_size(seed: u64, i: usize) -> usize {
    let mut s = seed ^ 0x706f_6f6c ^ (i as u64).wrapping_mul(0x9E37_79B9);
    let x = crate::core::rng::splitmix(&mut s);
    match x % 20 {
        0 => [24usize, 32, 48, 64][(x / 20 % 4) as usize],
        1..=4 => 1,
        _ => 2 + (x / 20 % 15) as usize,
    }
}

/// environments for a case: K keyings (keying 0 first), each with a seeded pool size and schedule seed
pub fn envs(seed: u64, k: usize) -> Vec<crate::core::case::Env> {
    keyings(seed, k).into_iter().enumerate().map(|(i, key)| crate::core::case::Env { keying: key, pool: pool_size(seed, i), sched: crate::core::rng::mix(seed, 0x5c4ed + i as u64) }).collect()
}

/// K keying seeds for a case: keying 0 first, the rest derived from the case seed
pub fn keyings(seed: u64, k: usize) -> Vec<u64> {
    let mut v = vec![0u64];
    let mut s = seed ^ 0x6b65_7969_6e67;
    while v.len() < k {
        let x = crate::core::rng::splitmix(&mut s);
        if x != 0 {
            v.push(x);
        }
    }
    v.truncate(k.max(1));
    v
}
