//! Engine (c) of C07: the REAL rayon. Pools of 1..=16 OS threads and concurrent read-only use of one shared
//! graph from several caller threads; every result must equal the single-threaded one bit for bit.
//! The schedule is whatever the OS does (not replayable): supporting evidence, never the deciding engine.
#![cfg(feature = "native")]
use crate::core::case::*;
use crate::core::json::J;
use crate::core::real;
use crate::props::{self, algo, Prop, Tier};
use graphrs::algorithms::centrality::{betweenness, closeness};
use graphrs::algorithms::components;
use graphrs::algorithms::shortest_path::dijkstra;
use std::collections::BTreeMap;

fn snapshot(g: &real::G, weighted: bool) -> Vec<(String, String)> {
    let mut out = vec![];
    let f = |m: std::collections::HashMap<String, f64>| -> String {
        let b: BTreeMap<String, f64> = m.into_iter().collect();
        b.iter().map(|(k, v)| format!("{:?}:{:016x};", k, v.to_bits())).collect()
    };
    match dijkstra::all_pairs(g, weighted, None, None, true, true) {
        Ok(m) => out.push(("all_pairs".into(), algo::sp2_conv(m).iter().map(|(k, v)| format!("{:?}=>{}|", k, algo::sp_bits(v))).collect())),
        Err(e) => out.push(("all_pairs".into(), format!("Err({:?})", e.kind))),
    }
    let names: Vec<String> = g.get_all_node_names().into_iter().cloned().collect();
    match dijkstra::multi_source(g, weighted, names.clone(), None, None, false, false) {
        Ok(m) => out.push(("multi_source".into(), algo::sp2_conv(m).iter().map(|(k, v)| format!("{:?}=>{}|", k, algo::sp_bits(v))).collect())),
        Err(e) => out.push(("multi_source".into(), format!("Err({:?})", e.kind))),
    }
    if let Some(x) = names.first() {
        let mut items: Vec<String> = dijkstra::get_all_shortest_paths_involving(g, x.clone(), weighted).iter().map(|i| format!("{:016x}:{:?}", i.distance.to_bits(), i.paths)).collect();
        items.sort();
        out.push(("involving".into(), items.join("|")));
    }
    out.push(("betweenness".into(), betweenness::betweenness_centrality(g, weighted, true).map(f).unwrap_or_else(|e| format!("Err({:?})", e.kind))));
    out.push(("closeness".into(), closeness::closeness_centrality(g, weighted, true).map(f).unwrap_or_else(|e| format!("Err({:?})", e.kind))));
    out
}

fn reader_queries(g: &real::G) -> String {
    let mut s = String::new();
    for x in g.get_all_node_names() {
        let mut e: Vec<String> = g.get_edges_for_node(x.clone()).map(|v| v.iter().map(|e| format!("{}>{}:{:016x}", e.u, e.v, e.weight.to_bits())).collect()).unwrap_or_default();
        e.sort();
        s.push_str(&e.join(","));
        s.push(';');
    }
    let comps = if g.specs.directed { components::strongly_connected_components(g) } else { components::connected_components(g) };
    if let Ok(c) = comps {
        let mut v: Vec<Vec<String>> = c.into_iter().map(|h| {
            let mut l: Vec<String> = h.into_iter().collect();
            l.sort();
            l
        }).collect();
        v.sort();
        s.push_str(&format!("{:?}", v));
    }
    s
}

pub fn run(seed: u64, tier: Tier, verif_dir: &str) -> i32 {
    let prop: &'static dyn Prop = props::by_id("C07").unwrap();
    let cases = match tier {
        Tier::Quick => 24,
        Tier::Thorough => 200,
    };
    let t0 = std::time::Instant::now();
    let mut pools_run = 0u64;
    let mut reader_rounds = 0u64;
    let mut viol: Option<(Case, String)> = None;
    'outer: for idx in 0..cases {
        let case = prop.gen(props::case_seed(seed, "C07", idx), idx, Tier::Quick);
        let g = match real::build(case.specs, &case.ops) {
            Ok(g) => g,
            Err(_) => continue,
        };
        if g.number_of_nodes() > 400 {
            continue; // the huge cases belong to the stub engine (all-pairs output would not fit in memory here)
        }
        if let Ok(snap) = real::Snap::of(&g) {
            let hop = crate::oracle::dist::DistOracle::new(&snap, true);
            if algo::sigma_max(&hop) > 200.0 {
                continue; // exploding path sets
            }
        }
        let weighted = !g.get_all_edges().is_empty() && g.edges_have_weight() && g.get_all_edges().iter().all(|e| e.weight > 0.0);
        // heavy path sets would dominate the run time; the stub engine covers them
        let one = rayon::ThreadPoolBuilder::new().num_threads(1).build().unwrap();
        let reference = one.install(|| snapshot(&g, weighted));
        let ref_reader = reader_queries(&g);
        for k in [2usize, 3, 4, 8, 16] {
            let pool = rayon::ThreadPoolBuilder::new().num_threads(k).build().unwrap();
            let got = pool.install(|| snapshot(&g, weighted));
            pools_run += 1;
            if got != reference {
                let which = got.iter().zip(reference.iter()).find(|(a, b)| a != b).map(|(a, _)| a.0.clone()).unwrap_or_default();
                viol = Some((case.clone(), format!("real rayon pool of {} threads: {} differs from the single-threaded result", k, which)));
                break 'outer;
            }
        }
        // concurrent read-only use of one shared graph from several caller threads (global pool underneath)
        let bad = std::thread::scope(|sc| {
            let hs: Vec<_> = (0..4)
                .map(|t| {
                    let (g, reference, ref_reader) = (&g, &reference, &ref_reader);
                    sc.spawn(move || {
                        for _ in 0..2 {
                            if t % 2 == 0 {
                                if &snapshot(g, weighted) != reference {
                                    return Some("an algorithm result changed under concurrent read-only use".to_string());
                                }
                            } else if &reader_queries(g) != ref_reader {
                                return Some("a query result changed under concurrent read-only use".to_string());
                            }
                        }
                        None
                    })
                })
                .collect();
            hs.into_iter().filter_map(|h| h.join().ok().flatten()).next()
        });
        reader_rounds += 1;
        if let Some(b) = bad {
            viol = Some((case.clone(), b));
            break;
        }
    }
    let summary = J::obj()
        .set("engine", J::s("native rayon (real OS threads; schedule not controlled, not replayable)"))
        .set("graphs", J::U(cases))
        .set("real_pools_compared_with_single_thread", J::U(pools_run))
        .set("pool_sizes", J::s("2,3,4,8,16 vs 1"))
        .set("concurrent_reader_rounds", J::U(reader_rounds))
        .set("caller_threads_per_round", J::U(4))
        .set("wall_s", J::F(t0.elapsed().as_secs_f64()))
        .set("violation", viol.as_ref().map(|v| J::s(&v.1)).unwrap_or(J::Null));
    let _ = std::fs::create_dir_all(format!("{}/target", verif_dir));
    let _ = std::fs::write(format!("{}/target/c07-native.json", verif_dir), summary.pretty());
    match viol {
        Some((case, what)) => {
            let path = format!("{}/replays/C07-native-{}.json", verif_dir, case.seed);
            let rep = crate::replay::Replay { case, oracle: "C07.native_engine".into(), sig: "real rayon differs from single-threaded".into(), detail: what.clone(), minimised: false, tier };
            let _ = std::fs::create_dir_all(format!("{}/replays", verif_dir));
            let _ = std::fs::write(&path, rep.to_json().pretty());
            println!("VIOLATION property=C07 replay={}", path);
            println!("  engine=native {}", what);
            1
        }
        None => {
            println!("C07 native engine: {} graphs x pools {{2,3,4,8,16}} and {} concurrent-reader rounds agree with the single-threaded results ({:.1}s)", cases, reader_rounds, t0.elapsed().as_secs_f64());
            0
        }
    }
}
