//! Known findings: genuine defects of graphrs that are recorded rather than repaired. The file is
//! committed under /verif and never written at run time. A finding is identified by property, oracle id
//! and the structural signature the oracle computes for the failing situation, so a different violation
//! of the same property is still reported.
use crate::core::json::J;

pub struct Known {
    pub findings: Vec<(String, String, String, String)>, // property, oracle, sig, what
}

pub fn load(verif_dir: &str) -> Known {
    let mut k = Known { findings: vec![] };
    if let Ok(s) = std::fs::read_to_string(format!("{}/known_findings.json", verif_dir)) {
        if let Ok(j) = J::parse(&s) {
            if let Some(a) = j.get("findings").and_then(|x| x.arr()) {
                for f in a {
                    let g = |k: &str| f.get(k).and_then(|x| x.str()).unwrap_or("").to_string();
                    k.findings.push((g("property"), g("oracle"), g("sig"), g("what")));
                }
            }
        }
    }
    k
}

impl Known {
    /// Some(description) when (property, oracle, sig) is a listed finding
    pub fn matches(&self, prop: &str, oracle: &str, sig: &str) -> Option<String> {
        self.findings.iter().find(|f| f.0 == prop && f.1 == oracle && f.2 == sig).map(|f| format!("{} [{} / {}]", f.3, f.1, f.2))
    }
}
