//! C10 — component functions partition the nodes by the right reachability relation.
use super::algo::{self, AlgoGen};
use super::{Prop, Tier};
use crate::core::case::*;
use crate::core::model::K;
use crate::core::real;
use crate::core::rng::Rng;
use crate::core::rt;
use crate::gen::{self, Shape, WeightRegime};
use crate::oracle::reach::Reach;
use crate::runner::Ctx;
use graphrs::algorithms::components;
use std::collections::{BTreeSet, HashSet};

pub struct C10Prop;
pub static C10: C10Prop = C10Prop;

type Classes = BTreeSet<BTreeSet<usize>>;

fn to_classes(snap: &real::Snap, v: &[HashSet<String>]) -> Result<Classes, String> {
    let mut out = Classes::new();
    let mut total = 0;
    for s in v {
        if s.is_empty() {
            return Err("an empty component was returned".into());
        }
        let mut c = BTreeSet::new();
        for x in s {
            match snap.names.iter().position(|y| y == x) {
                Some(i) => {
                    c.insert(i);
                }
                None => return Err(format!("component names {:?}, which is not a node", x)),
            }
        }
        total += c.len();
        out.insert(c);
    }
    if total != snap.n() || out.iter().map(|c| c.len()).sum::<usize>() != snap.n() {
        return Err(format!("the sets are not disjoint or do not cover the nodes: sizes sum to {} for {} nodes ({} sets, {} distinct)", total, snap.n(), v.len(), out.len()));
    }
    Ok(out)
}
fn show(snap: &real::Snap, c: &Classes) -> Vec<Vec<String>> {
    c.iter().map(|s| s.iter().map(|i| snap.names[*i].clone()).collect()).collect()
}

impl Prop for C10Prop {
    fn id(&self) -> &'static str {
        "C10"
    }
    fn runs(&self, tier: Tier) -> u64 {
        match tier {
            Tier::Quick => 12_000,
            Tier::Thorough => 120_000,
        }
    }
    fn gen(&self, seed: u64, idx: u64, tier: Tier) -> Case {
        let mut case = AlgoGen {
            large_pct: 30,
            n_small: (0, 12),
            n_large: (13, 40),
            regimes: vec![WeightRegime::AllNan, WeightRegime::SmallInt],
            kinds: AlgoGen::all_kinds(),
            shapes: Some(vec![Shape::NestedScc, Shape::NestedScc, Shape::NestedScc, Shape::Cycle, Shape::Gnp, Shape::Union, Shape::Tree, Shape::LayeredDag, Shape::Cliques, Shape::Path]),
            lifecycle_pct: 20,
            keyings: 1,
            boundary_per_mille: 6,
            huge_one_in: 1000,
            hub_one_in: 1000,
        }
        .gen("C10", seed, idx);
        // H is the point here: the same graph under >= 8 hash keyings (keying 0 always included)
        let k = match tier {
            Tier::Quick => 8,
            Tier::Thorough => 16,
        };
        // graphs of more than 4 096 nodes: three keyings (the per-node queries dominate the run)
        let k = if case.ops.len() > 0 && matches!(&case.ops[0], Op::AddNodes(ns) if ns.len() > 4000) { 3 } else { k };
        case.envs = gen::envs(seed, k);
        case
    }
    fn run_env(&self, case: &Case, env: &Env, cx: &mut Ctx) {
        let b = match algo::build(case, cx) {
            Some(b) => b,
            None => return,
        };
        let (g, snap) = (&b.g, &b.snap);
        let n = snap.n();
        let budget = rt::budget(n, snap.edges.len());
        let reach = Reach::new(snap);
        let kd = if snap.directed { "directed" } else { "undirected" };
        let index: std::collections::BTreeMap<&str, usize> = snap.names.iter().enumerate().map(|(i, s)| (s.as_str(), i)).collect();
        // start nodes of the per-node queries: every node; above 600 nodes the two nodes of highest degree, the
        // five of lowest degree and 14 seeded others
        let starts: Vec<usize> = if n <= 600 {
            (0..n).collect()
        } else {
            let mut deg = vec![0usize; n];
            for &(x, y, _) in &snap.edges {
                deg[x] += 1;
                deg[y] += 1;
            }
            let mut by: Vec<usize> = (0..n).collect();
            by.sort_by_key(|i| (deg[*i], *i));
            let mut v: Vec<usize> = by.iter().take(5).copied().collect();
            v.extend(by.iter().rev().take(2).copied());
            // nodes from which a node of very high degree is reached late (not adjacent to it)
            for &h in by.iter().rev().take(2) {
                let nb: BTreeSet<usize> = snap.edges.iter().filter(|e| e.0 == h || e.1 == h).map(|e| if e.0 == h { e.1 } else { e.0 }).collect();
                v.extend((0..n).filter(|i| *i != h && !nb.contains(i) && deg[*i] >= 2).take(3));
            }
            let mut sr = Rng::new(case.seed, "c10.starts");
            for _ in 0..14 {
                v.push(sr.below(n));
            }
            cx.count("probe.large_graph_sampled_starts");
            v
        };
        macro_rules! lib {
            ($label:expr, $e:expr) => {
                match rt::call($label, budget, || $e) {
                    Ok(v) => v,
                    Err(p) => {
                        cx.fail("C10.panic", &format!("{} panicked", $label), format!("{} panicked on a {} graph (keying {}): {} [{}]", $label, kd, env.keying, p.0, case.specs.short()));
                        return;
                    }
                }
            };
        }
        macro_rules! wrong_method {
            ($label:expr, $r:expr) => {
                match &$r {
                    Err(e) if real::kind(&e.kind) == K::WrongMethod => cx.count("err.WrongMethod"),
                    other => {
                        cx.fail("C10.wrong_kind", &format!("{} on a {} graph", $label, kd), format!("{} on a {} graph must return WrongMethod, got {}", $label, kd, if other.is_ok() { "Ok".to_string() } else { format!("{:?}", other.as_ref().err().map(|e| e.kind.clone())) }));
                        return;
                    }
                }
            };
        }
        let part = |label: &str, r: Result<Vec<HashSet<String>>, graphrs::Error>, exp: &Classes, cx: &mut Ctx| -> bool {
            match r {
                Err(e) => {
                    cx.fail("C10.partition", &format!("{} failed", label), format!("{} failed on a {} graph: {:?}", label, kd, e.kind));
                    false
                }
                Ok(v) => match to_classes(snap, &v) {
                    Err(d) => {
                        cx.fail("C10.partition", &format!("{}: not a partition", label), format!("{} (keying {}): {}: {:?} [{}]", label, env.keying, d, v, case.specs.short()));
                        false
                    }
                    Ok(c) => {
                        if &c != exp {
                            cx.fail("C10.partition", &format!("{}: wrong classes", label), format!("{} (keying {}) returned {:?} but the classes of the relation are {:?} [{}]", label, env.keying, show(snap, &c), show(snap, exp), case.specs.short()));
                            false
                        } else {
                            true
                        }
                    }
                },
            }
        };
        if snap.directed {
            let strong = reach.strong();
            let weak = reach.weak();
            if strong.iter().any(|c| c.len() >= 3) {
                cx.count("probe.scc_of_size_3_or_more");
            }
            if strong.len() != weak.len() {
                cx.count("probe.strong_differs_from_weak");
            }
            let r = lib!("strongly_connected_components", components::strongly_connected_components(g));
            if !part("strongly_connected_components", r, &strong, cx) {
                return;
            }
            let r = lib!("weakly_connected_components", components::weakly_connected_components(g));
            if !part("weakly_connected_components", r, &weak, cx) {
                return;
            }
            let r = lib!("connected_components", components::connected_components(g));
            wrong_method!("connected_components", r);
            let r = lib!("number_of_connected_components", components::number_of_connected_components(g));
            wrong_method!("number_of_connected_components", r);
            if n > 0 {
                let x = snap.names[0].clone();
                let r = lib!("node_connected_component", components::node_connected_component(g, &x));
                wrong_method!("node_connected_component", r);
            }
        } else {
            let cc = reach.weak();
            let r = lib!("connected_components", components::connected_components(g));
            if !part("connected_components", r, &cc, cx) {
                return;
            }
            match lib!("number_of_connected_components", components::number_of_connected_components(g)) {
                Ok(k) if k == cc.len() => {}
                other => {
                    cx.fail("C10.count", "number_of_connected_components", format!("number_of_connected_components = {:?} but there are {} components", other.map_err(|e| e.kind), cc.len()));
                    return;
                }
            }
            for &x in &starts {
                let name = snap.names[x].clone();
                match lib!("node_connected_component", components::node_connected_component(g, &name)) {
                    Ok(set) => {
                        let got: BTreeSet<String> = set.into_iter().collect();
                        let exp: BTreeSet<String> = cc.iter().find(|c| c.contains(&x)).unwrap().iter().map(|i| snap.names[*i].clone()).collect();
                        if got != exp {
                            cx.fail("C10.node_component", "node_connected_component", format!("node_connected_component({:?}) = {:?}, the component is {:?}", name, got, exp));
                            return;
                        }
                    }
                    Err(e) => {
                        cx.fail("C10.node_component", "node_connected_component failed", format!("node_connected_component({:?}) failed: {:?}", name, e.kind));
                        return;
                    }
                }
            }
            let r = lib!("strongly_connected_components", components::strongly_connected_components(g));
            wrong_method!("strongly_connected_components", r);
            let r = lib!("weakly_connected_components", components::weakly_connected_components(g));
            wrong_method!("weakly_connected_components", r);
        }
        // breadth-first search from every node
        for &x in &starts {
            let name = snap.names[x].clone();
            let bfs = lib!("breadth_first_search", g.breadth_first_search(&name));
            let set: BTreeSet<usize> = bfs.iter().filter_map(|y| index.get(y.as_str()).copied()).collect();
            if bfs.first() != Some(&name) || set.len() != bfs.len() || set != reach.reachable(x) {
                cx.fail("C10.bfs", &format!("breadth_first_search {}", kd), format!("breadth_first_search({:?}) (keying {}) = {:?}; expected {:?} first, then exactly {:?} once each", name, env.keying, bfs, name, reach.reachable(x).iter().map(|i| &snap.names[*i]).collect::<Vec<_>>()));
                return;
            }
        }
        // size-capped BFS partitioning
        let mut rng = Rng::new(case.seed, "c10.k");
        let mut ks = vec![1usize, 2, 3, n.max(1), n + 1];
        ks.push(1 + rng.below(n + 2));
        for k in ks {
            let parts = lib!("bfs_equal_size_partitions", components::bfs_equal_size_partitions(g, k));
            let cap = n / k + 1;
            let mut seen: BTreeSet<&String> = BTreeSet::new();
            let mut total = 0;
            for p in &parts {
                total += p.len();
                for x in p {
                    seen.insert(x);
                }
            }
            let all_nodes = seen.len() == n && snap.names.iter().all(|x| seen.contains(x));
            if parts.len() != k || total != n || !all_nodes || parts.iter().any(|p| p.len() > cap) {
                cx.fail("C10.bfs_partitions", &format!("bfs_equal_size_partitions {}", kd), format!("bfs_equal_size_partitions(k={}) on {} nodes returned {} parts of sizes {:?} (every node exactly once in one of k parts of size <= {})", k, n, parts.len(), parts.iter().map(|p| p.len()).collect::<Vec<_>>(), cap));
                return;
            }
        }
        cx.count("graphs_under_keying");
        if env.keying == 0 {
            cx.states.push(super::lifecycle::ops_hash(&case.ops));
            if snap.edges.len() >= 2 {
                cx.nt.push(super::lifecycle::ops_hash(&case.ops));
            }
        }
    }
    fn rule(&self) -> String {
        "graphs of all 8 kinds, n <= 40, biased to nested strongly connected components (cycles sharing nodes, cycles of cycles, DAG + back edges), long cycles, many small components, isolated nodes, self-loops, parallel edges; each graph analysed under 8 (quick) / 16 (thorough) hash keyings (the SCC routine's visit order follows HashSet iteration): connected / weakly / strongly connected components are set partitions equal to the classes of the Warshall closure, number_of_connected_components, node_connected_component(x) for every x, breadth_first_search(x) for every x, bfs_equal_size_partitions(k) for k in {1,2,3,n,n+1,random}, WrongMethod on the other kind. evaluations = graphs; each is run under every keying. distinct_nontrivial = distinct graphs with >= 2 edges; one case in 1000 is a dense graph (1-3 blocks, 60-300 nodes) with 2 100 - 12 500 stored edges under a pool of 2-16 workers (strategy thresholds); one case in 1000 has 4 150 - 4 600 nodes with one or two hubs adjacent to more than 4 096 of them (3 keyings; closure by search; per-node queries from the nodes of highest and lowest degree, nodes not adjacent to a hub, and 14 seeded others); in a third of the cases a battery of valid unjudged calls runs first on a sibling graph (same names and edges, other node order), in a fifth the graph is queried on the same object before its last one to three operations are applied (DESIGN.md 0.2)".into()
    }
    fn assumptions(&self) -> Vec<String> {
        vec!["bfs_equal_size_partitions: only k parts, exact cover and size <= floor(n/k)+1 are required".into()]
    }
}
