//! C08 — shortest-path options restrict the answer but never change it (metamorphic, implementation against itself).
use super::algo::{self, AlgoGen, SpMap};
use super::{Prop, Tier};
use crate::core::case::*;
use crate::core::rng::Rng;
use crate::core::rt;
use crate::gen::WeightRegime;
use crate::oracle::close_rel as close;
use crate::oracle::dist::{weights_exact, DistOracle};
use crate::pool;
use crate::runner::Ctx;
use graphrs::algorithms::shortest_path::dijkstra;
use std::collections::{BTreeMap, BTreeSet};

pub struct C08Prop;
pub static C08: C08Prop = C08Prop;

fn same_d(exact: bool, a: f64, b: f64) -> bool {
    if exact {
        a == b
    } else {
        close(a, b)
    }
}
fn pathset(p: &[Vec<String>]) -> BTreeSet<&Vec<String>> {
    p.iter().collect()
}

/// `got` = answer of a query with (target, cutoff, first_only, with_paths); `base` = the unrestricted all-paths answer
/// (or the unrestricted distance-only answer when `base_has_paths` is false).
#[allow(clippy::too_many_arguments)]
fn check_restricted(base: &SpMap, base_has_paths: bool, got: &SpMap, target: Option<&String>, cutoff: Option<f64>, first_only: bool, with_paths: bool, exact: bool) -> Result<(), (String, String)> {
    let within = |d: f64| cutoff.map_or(true, |c| d <= c);
    for (k, (d, paths)) in got {
        let (bd, bp) = match base.get(k) {
            Some(x) => x,
            None => return Err(("restricted search reports an extra node".into(), format!("node {:?} is reported but the unrestricted search does not reach it", k))),
        };
        if !same_d(exact, *d, *bd) {
            return Err(("restricted search changes a distance".into(), format!("node {:?}: distance {} vs {} unrestricted", k, d, bd)));
        }
        if !within(*d) {
            return Err(("entry beyond the cutoff".into(), format!("node {:?} at distance {} is reported with cutoff {:?}", k, d, cutoff)));
        }
        if !with_paths {
            if !paths.is_empty() {
                return Err(("with_paths=false returns paths".into(), format!("node {:?}: paths {:?}", k, paths)));
            }
        } else if base_has_paths {
            if first_only {
                if paths.len() != 1 || !pathset(bp).contains(&paths[0]) {
                    return Err(("first_only path not among all shortest paths".into(), format!("node {:?}: first_only returned {:?}, all shortest paths are {:?}", k, paths, bp)));
                }
            } else if pathset(paths) != pathset(bp) || paths.len() != bp.len() {
                return Err(("restricted search changes the path set".into(), format!("node {:?}: paths {:?} vs unrestricted {:?}", k, paths, bp)));
            }
        }
    }
    match target {
        None => {
            for (k, (d, _)) in base {
                if within(*d) && !got.contains_key(k) {
                    return Err(("entry within the cutoff is missing".into(), format!("node {:?} at distance {} is missing with cutoff {:?}", k, d, cutoff)));
                }
            }
        }
        Some(t) => {
            if let Some((d, _)) = base.get(t) {
                if within(*d) && !got.contains_key(t) {
                    return Err(("target missing".into(), format!("target {:?} at distance {} is not reported (cutoff {:?})", t, d, cutoff)));
                }
            }
        }
    }
    Ok(())
}

fn equal_maps(a: &SpMap, b: &SpMap, exact: bool) -> Result<(), String> {
    if a.keys().collect::<Vec<_>>() != b.keys().collect::<Vec<_>>() {
        return Err(format!("key sets differ: {:?} vs {:?}", a.keys().collect::<Vec<_>>(), b.keys().collect::<Vec<_>>()));
    }
    for (k, (d, p)) in a {
        let (d2, p2) = &b[k];
        if !same_d(exact, *d, *d2) {
            return Err(format!("distance to {:?}: {} vs {}", k, d, d2));
        }
        if pathset(p) != pathset(p2) || p.len() != p2.len() {
            return Err(format!("paths to {:?}: {:?} vs {:?}", k, p, p2));
        }
    }
    Ok(())
}

impl Prop for C08Prop {
    fn id(&self) -> &'static str {
        "C08"
    }
    fn runs(&self, tier: Tier) -> u64 {
        match tier {
            Tier::Quick => 8_000,
            Tier::Thorough => 200_000,
        }
    }
    fn gen(&self, seed: u64, idx: u64, _tier: Tier) -> Case {
        AlgoGen {
            large_pct: 25,
            n_small: (1, 9),
            n_large: (21, 40),
            regimes: vec![WeightRegime::AllNan, WeightRegime::Dyadic, WeightRegime::SmallInt, WeightRegime::Nasty, WeightRegime::FineDyadic, WeightRegime::Tiny, WeightRegime::NearEqual, WeightRegime::MixedScale],
            kinds: AlgoGen::all_kinds(),
            shapes: None,
            lifecycle_pct: 25,
            keyings: 1,
            boundary_per_mille: 0,
            huge_one_in: 1000,
            hub_one_in: 0,
        }
        .gen("C08", seed, idx)
    }
    fn run_env(&self, case: &Case, env: &Env, cx: &mut Ctx) {
        let b = match algo::build(case, cx) {
            Some(b) => b,
            None => return,
        };
        let (g, snap) = (&b.g, &b.snap);
        let n = snap.n();
        if n == 0 {
            return;
        }
        let budget = rt::budget(n, snap.edges.len());
        let mut rng = Rng::new(case.seed, "c08.queries");
        if case.seed % 4 == 0 {
            algo::poison_prelude(env, cx);
        }
        let mut modes = vec![false];
        if !snap.edges.is_empty() && snap.weighted() && algo::all_positive(snap) {
            modes.push(true);
        }
        macro_rules! lib {
            ($label:expr, $e:expr) => {
                match rt::call($label, budget, || $e) {
                    Ok(Ok(v)) => v,
                    Ok(Err(e)) => {
                        cx.fail("C08.error", &format!("{} returned Err", $label), format!("{} failed: {:?} {}", $label, e.kind, e.message));
                        return;
                    }
                    Err(p) => {
                        cx.fail("C08.panic", &format!("{} panicked", $label), format!("{} panicked: {} [{}]", $label, p.0, case.specs.short()));
                        return;
                    }
                }
            };
        }
        for weighted in modes {
            let exact = !weighted || weights_exact(snap);
            let orc = DistOracle::new(snap, !weighted);
            let heavy = algo::sigma_max(&orc) > 500.0;
            // path-level relations need weights whose sums floats can tell apart (see algo::comparable_scale)
            let wp = !heavy && (!weighted || algo::comparable_scale(snap)); // with_paths for the base answers
            if weighted && !algo::comparable_scale(snap) {
                cx.count("probe.absorbing_weight_scales_distances_only");
            }
            let mode = if weighted { "weighted" } else { "hop" };
            // R1: the three entry points agree
            let ap = algo::sp2_conv(lib!("all_pairs", pool::scoped(env.pool, || dijkstra::all_pairs(g, weighted, None, None, false, wp))));
            let ms = algo::sp2_conv(lib!("multi_source", pool::scoped(env.pool, || dijkstra::multi_source(g, weighted, snap.names.clone(), None, None, false, wp))));
            let ap_d = algo::sp2_conv(lib!("all_pairs", pool::scoped(env.pool, || dijkstra::all_pairs(g, weighted, None, None, false, false))));
            if ap.len() != n || ms.len() != n || ap_d.len() != n {
                cx.fail("C08.entry_points", "number of sources", format!("all_pairs / multi_source report {} / {} / {} sources for {} nodes", ap.len(), ms.len(), ap_d.len(), n));
                return;
            }
            let sources: Vec<usize> = if n <= 9 { (0..n).collect() } else { (0..4).map(|_| rng.below(n)).collect() };
            let mut bases: BTreeMap<usize, SpMap> = BTreeMap::new();
            for s in 0..n {
                let name = &snap.names[s];
                if let Err(d) = equal_maps(&ap[name], &ms[name], exact) {
                    cx.fail("C08.entry_points", "all_pairs != multi_source", format!("source {:?} ({}, pool {}): all_pairs vs multi_source: {}", name, mode, env.pool, d));
                    return;
                }
                // the distance-only fast path agrees with the full algorithm
                if let Err((sig, d)) = check_restricted(&ap[name], wp, &ap_d[name], None, None, false, false, exact) {
                    cx.fail("C08.with_paths_false", &format!("fast path: {}", sig), format!("source {:?} ({}): with_paths=false vs with_paths=true: {}", name, mode, d));
                    return;
                }
                if n <= 9 || sources.contains(&s) {
                    let ss = algo::sp_conv(lib!("single_source", dijkstra::single_source(g, weighted, name.clone(), None, None, false, wp)));
                    if let Err(d) = equal_maps(&ap[name], &ss, exact) {
                        cx.fail("C08.entry_points", "all_pairs != single_source", format!("source {:?} ({}, pool {}): all_pairs vs single_source: {}", name, mode, env.pool, d));
                        return;
                    }
                    bases.insert(s, ss);
                }
            }
            cx.count("entry_point_comparisons");
            // R6: symmetry and triangle inequality
            let dist = |a: usize, b: usize| ap[&snap.names[a]].get(&snap.names[b]).map(|x| x.0).unwrap_or(f64::INFINITY);
            for a in 0..n {
                for b2 in 0..n {
                    if !snap.directed && !same_d(exact, dist(a, b2), dist(b2, a)) {
                        cx.fail("C08.symmetry", "undirected distances asymmetric", format!("d({:?},{:?}) = {} but d({:?},{:?}) = {} ({})", snap.names[a], snap.names[b2], dist(a, b2), snap.names[b2], snap.names[a], dist(b2, a), mode));
                        return;
                    }
                    if n <= 12 {
                        for c in 0..n {
                            let (ab, bc, ac) = (dist(a, b2), dist(b2, c), dist(a, c));
                            if ab.is_finite() && bc.is_finite() && ac > ab + bc + 1e-9 * (1.0 + ab + bc) {
                                cx.fail("C08.triangle", "triangle inequality", format!("d({:?},{:?}) = {} > {} + {}", snap.names[a], snap.names[c], ac, ab, bc));
                                return;
                            }
                        }
                    }
                }
            }
            // R2-R5: every option combination against the unrestricted answer
            for (&s, base) in &bases {
                let sname = snap.names[s].clone();
                let mut dvals: Vec<f64> = base.values().map(|x| x.0).collect();
                dvals.sort_by(|a, b| a.partial_cmp(b).unwrap());
                dvals.dedup();
                let mut cutoffs: Vec<Option<f64>> = vec![None];
                for w in dvals.windows(2) {
                    cutoffs.push(Some(w[1]));
                    cutoffs.push(Some((w[0] + w[1]) / 2.0));
                }
                for d in dvals.iter().filter(|d| **d > 0.0 && d.is_finite()) {
                    // one ulp below and above a reachable distance
                    cutoffs.push(Some(f64::from_bits(d.to_bits() - 1)));
                    cutoffs.push(Some(f64::from_bits(d.to_bits() + 1)));
                }
                if dvals.len() >= 2 {
                    cutoffs.push(Some(dvals[1] / 2.0)); // below the smallest positive distance
                    cutoffs.push(Some(dvals[dvals.len() - 1] + 1.0));
                }
                if cutoffs.len() > 9 {
                    let mut keep = vec![None];
                    for _ in 0..8 {
                        keep.push(cutoffs[1 + rng.below(cutoffs.len() - 1)]);
                    }
                    cutoffs = keep;
                }
                let mut targets: Vec<Option<String>> = vec![None];
                if n <= 6 {
                    targets.extend(snap.names.iter().cloned().map(Some));
                } else {
                    for _ in 0..3 {
                        targets.push(Some(snap.names[rng.below(n)].clone()));
                    }
                }
                for t in &targets {
                    for c in &cutoffs {
                        for first_only in [false, true] {
                            for with_paths in [false, true] {
                                if with_paths && !first_only && heavy {
                                    continue;
                                }
                                let got = algo::sp_conv(lib!("single_source", dijkstra::single_source(g, weighted, sname.clone(), t.clone(), *c, first_only, with_paths)));
                                cx.count("option_combinations");
                                if let Err((sig, d)) = check_restricted(base, wp, &got, t.as_ref(), *c, first_only, with_paths, exact) {
                                    let opt = format!("target={} cutoff={} first_only={} with_paths={}", t.is_some(), c.is_some(), first_only, with_paths);
                                    cx.fail("C08.options", &format!("{} [{}]", sig, opt), format!("single_source({:?}, {}, target={:?}, cutoff={:?}, first_only={}, with_paths={}): {}", sname, mode, t, c, first_only, with_paths, d));
                                    return;
                                }
                            }
                        }
                    }
                }
                // the same options through all_pairs / multi_source (serial vs simulated-parallel above 20 nodes)
                let t = targets[rng.below(targets.len())].clone();
                let c = cutoffs[rng.below(cutoffs.len())];
                let apo = algo::sp2_conv(lib!("all_pairs", pool::scoped(env.pool, || dijkstra::all_pairs(g, weighted, t.clone(), c, false, wp))));
                let mso = algo::sp2_conv(lib!("multi_source", pool::scoped(env.pool, || dijkstra::multi_source(g, weighted, vec![sname.clone()], t.clone(), c, false, wp))));
                let sso = algo::sp_conv(lib!("single_source", dijkstra::single_source(g, weighted, sname.clone(), t.clone(), c, false, wp)));
                for (what, other) in [("all_pairs", apo.get(&sname)), ("multi_source", mso.get(&sname))] {
                    match other {
                        Some(o) => {
                            if let Err(d) = equal_maps(o, &sso, exact) {
                                cx.fail("C08.entry_points", &format!("{} != single_source with options", what), format!("source {:?}, target={:?}, cutoff={:?} ({}, pool {}): {} vs single_source: {}", sname, t, c, mode, env.pool, what, d));
                                return;
                            }
                        }
                        None => {
                            cx.fail("C08.entry_points", &format!("{} misses a source", what), format!("{} has no entry for source {:?}", what, sname));
                            return;
                        }
                    }
                }
            }
            // R7: get_all_shortest_paths_involving
            if wp {
                let k = if n <= 6 { n } else { 3 };
                for i in 0..k {
                    let x = if n <= 6 { i } else { rng.below(n) };
                    let xname = snap.names[x].clone();
                    let r = match rt::call("get_all_shortest_paths_involving", budget, || pool::scoped(env.pool, || dijkstra::get_all_shortest_paths_involving(g, xname.clone(), weighted))) {
                        Ok(v) => v,
                        Err(p) => {
                            cx.fail("C08.panic", "get_all_shortest_paths_involving panicked", format!("get_all_shortest_paths_involving({:?}) panicked: {}", xname, p.0));
                            return;
                        }
                    };
                    let mut got: BTreeSet<(String, String)> = BTreeSet::new();
                    for info in &r {
                        let p0 = match info.paths.first() {
                            Some(p) if !p.is_empty() => p,
                            _ => {
                                cx.fail("C08.involving", "entry without paths", format!("get_all_shortest_paths_involving({:?}) returned an entry without paths", xname));
                                return;
                            }
                        };
                        let (s, t) = (p0[0].clone(), p0[p0.len() - 1].clone());
                        let base = &ap[&s][&t];
                        if !same_d(exact, base.0, info.distance) || pathset(&base.1) != pathset(&info.paths) {
                            cx.fail("C08.involving", "entry differs from all_pairs", format!("get_all_shortest_paths_involving({:?}): entry {:?}->{:?} = ({}, {:?}) but all_pairs has ({}, {:?})", xname, s, t, info.distance, info.paths, base.0, base.1));
                            return;
                        }
                        if !got.insert((s.clone(), t.clone())) {
                            cx.fail("C08.involving", "pair returned twice", format!("get_all_shortest_paths_involving({:?}) returned the pair {:?}->{:?} twice", xname, s, t));
                            return;
                        }
                    }
                    let mut exp: BTreeSet<(String, String)> = BTreeSet::new();
                    for (s, m) in &ap {
                        for (t, (_, paths)) in m {
                            if paths.iter().any(|p| p.len() >= 3 && p[1..p.len() - 1].contains(&xname)) {
                                exp.insert((s.clone(), t.clone()));
                            }
                        }
                    }
                    if got != exp {
                        cx.fail("C08.involving", "pair set", format!("get_all_shortest_paths_involving({:?}, {}) returned pairs {:?} but the pairs with {:?} strictly inside a shortest path are {:?}", xname, mode, got, xname, exp));
                        return;
                    }
                    cx.count("involving_checks");
                }
            }
        }
        if n > 20 && env.pool > 1 {
            cx.count("probe.serial_vs_parallel_relation");
        }
        if snap.edges.len() >= 2 {
            cx.nt.push(super::lifecycle::ops_hash(&case.ops));
        }
        cx.states.push(super::lifecycle::ops_hash(&case.ops));
    }
    fn rule(&self) -> String {
        "graphs of all 8 kinds (n <= 9 or 21-40; shapes and lifecycle-built), hop counts or positive weights; relations of the implementation against itself: all_pairs = multi_source(all nodes) = single_source per node; every combination of target in {None, nodes} x cutoff in {None, each distinct distance, midpoints, below the minimum, above the maximum} x first_only x with_paths is a restriction of the unrestricted answer with unchanged values; with_paths=false (distance-only fast path) vs the full algorithm; undirected symmetry; triangle inequality; get_all_shortest_paths_involving = pairs with the node strictly inside; above 20 nodes all_pairs / multi_source run under a simulated pool while single_source is serial. distinct_nontrivial = distinct graphs with >= 2 edges; one case in 1000 is a dense graph (1-3 blocks, 60-300 nodes) with 2 100 - 12 500 stored edges under a pool of 2-16 workers (strategy thresholds); in a third of the cases a battery of valid unjudged calls runs first on a sibling graph (same names and edges, other node order), in a fifth the graph is queried on the same object before its last one to three operations are applied (DESIGN.md 0.2)".into()
    }
    fn assumptions(&self) -> Vec<String> {
        vec!["with first_only the choice of the path is unspecified: only membership in the all-paths answer is required, and entry points are compared with first_only=false".into(), "distances are compared bit-exactly under dyadic weights / hop counts and at 1e-9 otherwise".into()]
    }
}
