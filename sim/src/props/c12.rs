//! C12 — modularity equals Newman's formula and only true partitions are accepted.
use super::algo::{self, AlgoGen};
use super::{Prop, Tier};
use crate::core::case::*;
use crate::core::json::J;
use crate::core::model::Model;
use crate::core::rng::Rng;
use crate::core::rt;
use crate::gen::{self, WeightRegime};
use crate::oracle::close;
use crate::oracle::modularity as orc;
use crate::runner::Ctx;
use graphrs::algorithms::community::partitions;
use graphrs::ErrorKind;
use std::collections::{BTreeSet, HashSet};

pub struct C12Prop;
pub static C12: C12Prop = C12Prop;

fn family_json(f: &[Vec<String>]) -> J {
    J::Arr(f.iter().map(|c| J::strs(c)).collect())
}
fn family_parse(j: &J) -> Vec<Vec<String>> {
    j.arr().map(|a| a.iter().map(|c| c.arr().map(|x| x.iter().filter_map(|s| s.str().map(|s| s.to_string())).collect()).unwrap_or_default()).collect()).unwrap_or_default()
}

impl Prop for C12Prop {
    fn id(&self) -> &'static str {
        "C12"
    }
    fn runs(&self, tier: Tier) -> u64 {
        match tier {
            Tier::Quick => 40_000,
            Tier::Thorough => 800_000,
        }
    }
    fn gen(&self, seed: u64, idx: u64, _tier: Tier) -> Case {
        let mut case = AlgoGen {
            large_pct: 10,
            n_small: (1, 9),
            n_large: (10, 20),
            regimes: vec![WeightRegime::AllNan, WeightRegime::Dyadic, WeightRegime::SmallInt, WeightRegime::Nasty],
            kinds: AlgoGen::all_kinds(),
            shapes: None,
            lifecycle_pct: 30,
            keyings: 2,
            boundary_per_mille: 25,
            huge_one_in: 1000,
            hub_one_in: 0,
        }
        .gen("C12", seed, idx);
        // the node set the history produces (the model is exact for these permissive specs)
        let mut m = Model::new(case.specs);
        for op in &case.ops {
            m.apply(op);
        }
        let names: Vec<String> = m.nodes.iter().map(|n| n.0.clone()).collect();
        let mut rng = Rng::new(seed, "c12.families");
        let n = names.len();
        // a random set partition
        let k = rng.range(1, n.max(1).min(5));
        let mut base: Vec<Vec<String>> = vec![vec![]; k];
        for x in &names {
            let i = rng.below(k);
            base[i].push(x.clone());
        }
        base.retain(|c| !c.is_empty());
        let mut families: Vec<(String, Vec<Vec<String>>)> = vec![("partition".into(), base.clone())];
        families.push(("singletons".into(), names.iter().map(|x| vec![x.clone()]).collect()));
        families.push(("one_set".into(), if names.is_empty() { vec![] } else { vec![names.clone()] }));
        // many small communities (pairs of consecutive nodes): a community far smaller than the graph
        if n >= 4 {
            families.push(("pairs".into(), names.chunks(2).map(|c| c.to_vec()).collect()));
        }
        if n >= 40 {
            // communities of 20 consecutive nodes (dense graphs are built from blocks of consecutive nodes: many
            // edges, parallel ones included, inside a small community)
            families.push(("blocks_of_20".into(), names.chunks(20).map(|c| c.to_vec()).collect()));
        }
        let mut with_empty = base.clone();
        with_empty.insert(rng.below(with_empty.len() + 1), vec![]);
        families.push(("partition_plus_empty_set".into(), with_empty));
        if n >= 2 && base.len() >= 1 {
            // duplicate a member into a second set
            let mut f = base.clone();
            if f.len() == 1 {
                f.push(vec![]);
            }
            let x = f[0][rng.below(f[0].len())].clone();
            let j = 1 + rng.below(f.len() - 1);
            f[j].push(x.clone());
            families.push(("overlap".into(), f.clone()));
            // the cancelling combination: one duplicate + one omission, sizes still sum to n
            let victim: Vec<(usize, usize)> = f.iter().enumerate().flat_map(|(ci, c)| c.iter().enumerate().filter(|(_, y)| **y != x).map(move |(yi, _)| (ci, yi))).collect();
            if !victim.is_empty() {
                let (ci, yi) = victim[rng.below(victim.len())];
                let mut g2 = f.clone();
                g2[ci].remove(yi);
                families.push(("overlap_and_omission_cancel".into(), g2));
            }
            // drop a member
            let mut f = base.clone();
            let ci = rng.below(f.len());
            let yi = rng.below(f[ci].len());
            f[ci].remove(yi);
            families.push(("omission".into(), f));
            // a foreign name, with and without an omission that keeps the count
            let mut f = base.clone();
            let ci = rng.below(f.len());
            f[ci].push("~foreign".into());
            families.push(("foreign".into(), f.clone()));
            let yi = rng.below(f[ci].len() - 1);
            f[ci].remove(yi);
            families.push(("foreign_replaces_member".into(), f));
        }
        // the order of the calls varies (every call runs on the same thread): a rejected family before an accepted
        // one, the cancelling family right after a family that was rejected half-way, ...
        rng.shuffle(&mut families);
        if let Some(c) = families.iter().find(|f| f.0 == "overlap_and_omission_cancel").cloned() {
            if let Some(f) = families.iter().find(|f| f.0 == "foreign").cloned() {
                families.push(("foreign_again".into(), f.1));
            }
            families.push(("overlap_and_omission_cancel_again".into(), c.1));
        }
        let pick = rng.below(families.len());
        // every family is evaluated; `pick` only decides the order of emphasis in samples
        let _ = pick;
        case.params.put("families", J::Arr(families.iter().map(|(k, f)| J::obj().set("kind", J::s(k)).set("sets", family_json(f))).collect()));
        case.params.put("resolution", J::F(*rng.pick(&[1.0, 0.5, 2.0, 0.125, 3.0, 1.5, 0.75])));
        case
    }
    fn run_env(&self, case: &Case, env: &Env, cx: &mut Ctx) {
        let b = match algo::build(case, cx) {
            Some(b) => b,
            None => return,
        };
        let (g, snap) = (&b.g, &b.snap);
        let n = snap.n();
        let budget = rt::budget(n, snap.edges.len());
        let resolution = case.p_f64("resolution").unwrap_or(1.0);
        let fams: Vec<(String, Vec<Vec<String>>)> = case.params.get("families").and_then(|x| x.arr()).map(|a| a.iter().map(|f| (f.get("kind").and_then(|k| k.str()).unwrap_or("").to_string(), family_parse(f.get("sets").unwrap_or(&J::Null)))).collect()).unwrap_or_default();
        let weighted_ok = !snap.edges.is_empty() && snap.weighted();
        for (kind, fam) in &fams {
            let comms: Vec<HashSet<String>> = fam.iter().map(|c| c.iter().cloned().collect()).collect();
            let exp = orc::is_partition(&snap.names, fam);
            cx.count(&format!("family.{}", kind));
            let r = match rt::call("is_partition", budget, || partitions::is_partition(g, &comms)) {
                Ok(v) => v,
                Err(p) => {
                    cx.fail("C12.panic", "is_partition panicked", format!("is_partition({:?}) panicked: {}", fam, p.0));
                    return;
                }
            };
            if r != exp {
                cx.fail("C12.is_partition", &format!("is_partition family={} expected {}", kind, exp), format!("is_partition({:?}) = {} on nodes {:?}; the family is {}a partition (pairwise disjoint, only nodes of the graph, covering)", fam, r, snap.names, if exp { "" } else { "not " }));
                return;
            }
            if snap.edges.is_empty() {
                continue;
            }
            let mut modes = vec![false];
            if weighted_ok {
                modes.push(true);
            }
            for weighted in modes {
                for res in [Some(resolution), None] {
                    let r = match rt::call("modularity", budget, || partitions::modularity(g, &comms, weighted, res)) {
                        Ok(v) => v,
                        Err(p) => {
                            cx.fail("C12.panic", &format!("modularity panicked family={}", kind), format!("modularity({:?}, weighted={}) panicked (keying {}): {} [{}]", fam, weighted, env.keying, p.0, case.specs.short()));
                            return;
                        }
                    };
                    if !exp {
                        match r {
                            Err(e) if matches!(e.kind, ErrorKind::NotAPartition) => cx.count("err.NotAPartition"),
                            other => {
                                cx.fail("C12.not_a_partition", &format!("modularity accepts family={}", kind), format!("modularity({:?}) on nodes {:?} must be rejected with NotAPartition, got {:?}", fam, snap.names, other.map_err(|e| e.kind)));
                                return;
                            }
                        }
                        continue;
                    }
                    let sets: Vec<BTreeSet<usize>> = fam.iter().map(|c| c.iter().filter_map(|x| snap.names.iter().position(|y| y == x)).collect()).collect();
                    let e = orc::modularity(snap, &sets, weighted, res.unwrap_or(1.0));
                    match r {
                        Ok(q) => {
                            if !close(q, e) {
                                let sig = format!("modularity value {}{}{} {}", if snap.directed { "directed" } else { "undirected" }, if snap.multi { "+multi" } else { "" }, if snap.edges.iter().any(|x| x.0 == x.1) { "+loops" } else { "" }, if weighted { "weighted" } else { "unweighted" });
                                cx.fail("C12.modularity", &sig, format!("modularity({:?}, weighted={}, resolution={:?}) = {} but Newman's formula gives {} (keying {}) [{}]", fam, weighted, res, q, e, env.keying, case.specs.short()));
                                return;
                            }
                            cx.count("modularity_values_checked");
                        }
                        Err(e2) => {
                            cx.fail("C12.modularity", "modularity rejects a partition", format!("modularity({:?}) failed with {:?} although the family is a partition of {:?}", fam, e2.kind, snap.names));
                            return;
                        }
                    }
                }
            }
        }
        if env.keying == 0 {
            cx.states.push(super::lifecycle::ops_hash(&case.ops));
            if !snap.edges.is_empty() && n >= 2 {
                cx.nt.push(crate::core::rng::mix(super::lifecycle::ops_hash(&case.ops), crate::core::rng::hash_str(&case.params.to_string())));
            }
        }
    }
    fn rule(&self) -> String {
        "graphs of every kind (n <= 20) with families of node sets: a random set partition, singletons, one set, a partition plus an empty set, and non-partitions built by mutation (a member duplicated into a second set, a member dropped, a foreign name added, a foreign name replacing a member, and the cancelling combination of one duplicate and one omission whose sizes still sum to n); is_partition vs the set-theoretic definition; modularity (weighted / unweighted, resolution in (0,3] and default) vs Newman's formula from the stored edge list at 1e-9 on true partitions, NotAPartition otherwise; 2 hash keyings (summation order). distinct_nontrivial = distinct (graph, families, resolution) with >= 1 edge and >= 2 nodes; one case in 1000 is a dense graph (1-3 blocks, 60-300 nodes) with 2 100 - 12 500 stored edges under a pool of 2-16 workers (strategy thresholds); in a third of the cases a battery of valid unjudged calls runs first on a sibling graph (same names and edges, other node order), in a fifth the graph is queried on the same object before its last one to three operations are applied (DESIGN.md 0.2); the families are evaluated in a seeded order on one thread, the rejected (foreign name) and the cancelling family once more at the end; dense graphs of up to 20 000 edges; family 'blocks of 20 consecutive nodes' (small communities with many internal and parallel edges); dense graphs of up to 20 000 edges, one case in 1000".into()
    }
    fn assumptions(&self) -> Vec<String> {
        vec!["a family containing empty sets is a partition iff its non-empty sets are (the definition only speaks of disjointness, membership and cover)".into(), "weighted modularity only on graphs whose edges all carry weights".into()]
    }
}
