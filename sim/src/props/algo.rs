//! Shared machinery of the algorithm properties (C04-C08, C10-C13, C17, C18): case generation from
//! structured graphs or lifecycle histories, building, and canonical forms of results.
use crate::core::case::*;
use crate::core::json::J;
use crate::core::real::{self, Snap, G};
use crate::core::rng::Rng;
use crate::gen::{self, GraphOpts, HistOpts, Shape, WeightRegime};
use crate::oracle::dist::{DistOracle, INF};
use crate::runner::Ctx;
use graphrs::algorithms::shortest_path::ShortestPathInfo;
use std::collections::{BTreeMap, BTreeSet, HashMap};

pub struct Built {
    /// boxed: the graph stays at one address from its first operation to the last judged call
    pub g: Box<G>,
    pub snap: Snap,
}

/// Build the graph of a case (rejected operations are C01's business) and snapshot it through the public API.
/// Queries in the middle of the history: in a fifth of the cases the graph is built up to its last one to three
/// operations, a battery of read-only calls is made on that very object (weighted and unweighted, whole graph and
/// subsets), and only then are the remaining operations applied. Whatever a query memoises on the graph object or
/// on the thread must not survive the mutation that follows: the judged calls run on the finished graph.
fn build_with_reads_in_between(case: &Case, cx: &mut Ctx) -> Result<Box<G>, crate::core::rt::Panicked> {
    let len = case.ops.len();
    // dense graphs whose last operations replace weights in place (same counts, same object): always queried just
    // before those replacements
    let forced = case.p_u64("reads_before_last").map(|t| t as usize).filter(|t| *t >= 1 && *t < len);
    if forced.is_none() && (case.seed % 5 != 2 || len < 2) {
        return real::build(case.specs, &case.ops).map(Box::new);
    }
    let tail = forced.unwrap_or(1 + (case.seed / 5 % 3) as usize);
    let split = len.saturating_sub(tail).max(1);
    let mut g = Box::new(real::build(case.specs, &case.ops[..split])?);
    if let Ok(snap) = Snap::of(&g) {
        if snap.n() >= 1 && snap.n() <= if forced.is_some() { 1000 } else { 400 } {
            reads_on(&g, &snap, case, cx);
        }
    }
    for op in &case.ops[split..] {
        real::apply(&mut g, op)?;
    }
    Ok(g)
}

fn reads_on(g: &G, snap: &Snap, case: &Case, cx: &mut Ctx) {
    use graphrs::algorithms::centrality::{betweenness, closeness, eigenvector};
    use graphrs::algorithms::community::partitions;
    use graphrs::algorithms::shortest_path::dijkstra;
    use graphrs::algorithms::{cluster, components};
    let b = crate::core::rt::budget(snap.n(), snap.edges.len());
    let sums_finite = (2.0 * snap.edges.iter().map(|e| e.2.abs()).sum::<f64>()).powi(2).is_finite();
    let w = !snap.edges.is_empty() && snap.weighted() && all_positive(snap) && comparable_scale(snap) && sums_finite;
    let w_pos = !snap.edges.is_empty() && snap.weighted() && all_positive(snap);
    let first = snap.names[0].clone();
    let some: Vec<String> = snap.names.iter().take(3).cloned().collect();
    let mut done = 0u64;
    macro_rules! read {
        ($label:expr, $e:expr) => {
            if crate::core::rt::call($label, b, || {
                let _ = $e;
            })
            .is_ok()
            {
                done += 1;
            }
        };
    }
    read!("between:edges_have_weight", g.edges_have_weight());
    read!("between:size", (g.size(false), g.size(true)));
    read!("between:degrees", (g.get_degree_for_all_nodes(), g.number_of_edges(), g.number_of_nodes()));
    for weighted in [false, w] {
        // one path per node, never all of them: the number of shortest paths can be astronomical (regular graphs)
        read!("between:single_source", dijkstra::single_source(g, weighted, first.clone(), None, None, true, true));
        read!("between:all_pairs", dijkstra::all_pairs(g, weighted, None, None, true, false));
        read!("between:betweenness", betweenness::betweenness_centrality(g, weighted, false));
        read!("between:closeness", closeness::closeness_centrality(g, weighted, true));
        if !snap.multi {
            // weighted clustering normalises by the largest weight: no sums, so incomparable scales are fine here
            let wc = if weighted || (w_pos && !w) { w_pos } else { false };
            read!("between:clustering", cluster::clustering(g, wc, None));
            read!("between:clustering(subset)", cluster::clustering(g, wc, Some(&some)));
            read!("between:average_clustering", cluster::average_clustering(g, wc, Some(&some), false));
            read!("between:eigenvector", eigenvector::eigenvector_centrality(g, weighted, Some(30), Some(1e-6)));
        }
        let singles: Vec<std::collections::HashSet<String>> = snap.names.iter().map(|x| [x.clone()].into_iter().collect()).collect();
        read!("between:modularity", partitions::modularity(g, &singles, weighted, None));
    }
    if snap.directed {
        read!("between:strongly_connected_components", components::strongly_connected_components(g));
    } else {
        read!("between:connected_components", components::connected_components(g));
    }
    read!("between:breadth_first_search", g.breadth_first_search(&first));
    let _ = case;
    cx.count("probe.queries_in_the_middle_of_the_history");
    cx.add("fault.queries_on_the_object_before_its_last_mutations", done);
}

pub fn build(case: &Case, cx: &mut Ctx) -> Option<Built> {
    let g = match build_with_reads_in_between(case, cx) {
        Ok(g) => g,
        Err(p) => {
            cx.fail(&format!("{}.build_panic", case.prop), "build", format!("building the graph panicked: {}", p.0));
            return None;
        }
    };
    let snap = match Snap::of(&g) {
        Ok(s) => s,
        Err(p) => {
            cx.fail(&format!("{}.build_panic", case.prop), "observe", format!("reading the graph panicked: {}", p.0));
            return None;
        }
    };
    cx.ev(super::lifecycle::ops_hash(&case.ops));
    cx.max("max.nodes", snap.n() as u64);
    cx.max("max.edges", snap.edges.len() as u64);
    cx.count(&format!("kind.{}{}{}", if snap.directed { "directed" } else { "undirected" }, if snap.multi { "+multi" } else { "" }, if snap.edges.iter().any(|e| e.0 == e.1) { "+loops" } else { "" }));
    if snap.n() > 20 {
        cx.count("probe.above_parallel_threshold");
    }
    if case.seed % 3 == 1 && snap.n() >= 2 && snap.n() <= 400 {
        earlier_calls(case, &snap, cx);
    }
    Some(Built { g, snap })
}

/// What ran on this thread before: in a third of the cases a battery of valid library calls is made on a sibling
/// graph (same names and edges, nodes declared in another order) before any judged call. Results are ignored
/// (they are judged when the sibling is the case); whatever they leave behind on the thread - a memo, a reused
/// buffer, a table sized for another graph - must not change what the judged calls return. All calls are
/// unweighted, so extreme weights play no part.
fn earlier_calls(case: &Case, snap: &Snap, cx: &mut Ctx) {
    use graphrs::algorithms::centrality::{betweenness, closeness, eigenvector};
    use graphrs::algorithms::community::louvain;
    use graphrs::algorithms::shortest_path::dijkstra;
    use graphrs::algorithms::{cluster, components};
    let sib = match sibling(case) {
        Some(s) => s,
        None => return,
    };
    let b = crate::core::rt::budget(snap.n(), snap.edges.len());
    let lb = super::c13::louvain_budget(snap.n(), snap.edges.len());
    let (first, mid) = (snap.names[0].clone(), snap.names[snap.n() / 2].clone());
    let mut done = 0u64;
    macro_rules! earlier {
        ($label:expr, $budget:expr, $e:expr) => {
            if crate::core::rt::call($label, $budget, || {
                let _ = $e;
            })
            .is_ok()
            {
                done += 1;
            }
        };
    }
    earlier!("earlier:single_source(target)", b, dijkstra::single_source(&sib, false, first.clone(), Some(mid.clone()), None, true, true));
    earlier!("earlier:single_source(target,cutoff)", b, dijkstra::single_source(&sib, false, mid.clone(), Some(first.clone()), Some(2.0), false, false));
    earlier!("earlier:all_pairs", b, dijkstra::all_pairs(&sib, false, None, None, false, false));
    earlier!("earlier:betweenness", b, betweenness::betweenness_centrality(&sib, false, true));
    earlier!("earlier:closeness", b, closeness::closeness_centrality(&sib, false, true));
    earlier!("earlier:breadth_first_search", b, sib.breadth_first_search(&mid));
    if snap.directed {
        earlier!("earlier:strongly_connected_components", b, components::strongly_connected_components(&sib));
        earlier!("earlier:weakly_connected_components", b, components::weakly_connected_components(&sib));
    } else {
        earlier!("earlier:connected_components", b, components::connected_components(&sib));
    }
    if !snap.multi {
        earlier!("earlier:clustering", b, cluster::clustering(&sib, false, None));
        earlier!("earlier:triangles", b, cluster::triangles(&sib, None));
        earlier!("earlier:eigenvector", b, eigenvector::eigenvector_centrality(&sib, false, Some(20), Some(1e-6)));
        // a weighted call that cannot converge (two sweeps): an error return, then the judged calls
        let sums_finite = (2.0 * snap.edges.iter().map(|e| e.2.abs()).sum::<f64>()).powi(2).is_finite();
        if !snap.edges.is_empty() && snap.weighted() && all_positive(snap) && sums_finite {
            earlier!("earlier:eigenvector(weighted, 2 sweeps)", b, eigenvector::eigenvector_centrality(&sib, true, Some(2), Some(1e-12)));
        }
    }
    if !snap.edges.is_empty() {
        earlier!("earlier:louvain_partitions", lb, louvain::louvain_partitions(&sib, false, Some(1.0), Some(1e-7), Some(case.p_u64("louvain_seed").unwrap_or(1))));
    }
    cx.count("probe.earlier_calls_on_a_sibling_graph");
    cx.add("fault.valid_calls_on_another_graph_before_the_judged_ones", done);
}

pub struct AlgoGen {
    /// fraction (out of 100) of cases with more than 20 nodes
    pub large_pct: u32,
    pub n_small: (usize, usize),
    pub n_large: (usize, usize),
    pub regimes: Vec<WeightRegime>,
    pub kinds: Vec<(bool, bool, bool)>,
    pub shapes: Option<Vec<Shape>>,
    /// fraction (out of 100) of the small cases that come from a lifecycle history rather than a shape
    pub lifecycle_pct: u32,
    pub keyings: usize,
    /// fraction (out of 1000) of cases whose node count sits on a power-of-two boundary (31..33, ..., 255..257)
    pub boundary_per_mille: u32,
    /// one case in this many is a dense graph with thousands of edges (0 = never)
    pub huge_one_in: u32,
    /// one case in this many is a graph of more than 4 096 nodes with a hub adjacent to more than 4 096 (0 = never)
    pub hub_one_in: u32,
}

impl AlgoGen {
    pub fn all_kinds() -> Vec<(bool, bool, bool)> {
        (0..8).map(gen::kind_from).collect()
    }
    pub fn single_edge_kinds() -> Vec<(bool, bool, bool)> {
        (0..8).map(gen::kind_from).filter(|k| !k.1).collect()
    }
    pub fn gen(&self, prop: &str, seed: u64, idx: u64) -> Case {
        let mut rng = Rng::new(seed, "config");
        let (directed, multi, self_loops) = self.kinds[(idx as usize) % self.kinds.len()];
        let regime = *rng.pick(&self.regimes);
        let large = rng.chance(self.large_pct, 100);
        let mut hr = Rng::new(seed, "config.huge");
        if self.huge_one_in > 0 && hr.chance(1, self.huge_one_in) {
            let regime = *hr.pick(&self.regimes);
            let mut wr = Rng::new(seed, "workload.huge");
            let (specs, ops) = gen::gen_dense_graph(&mut wr, directed, multi, self_loops, regime);
            let mut case = Case::new(prop, seed, specs);
            case.ops = ops;
            case.params.put("source", J::s("dense graph with thousands of edges"));
            let tail = case.ops.iter().rev().take_while(|o| matches!(o, Op::AddEdge(_))).count();
            if tail >= 1 && hr.chance(3, 4) {
                case.params.put("reads_before_last", J::U(tail as u64));
            }
            case.params.put("regime", J::s(&format!("{:?}", regime)));
            case.envs = gen::keyings(seed, self.keyings).into_iter().enumerate().map(|(i, k)| Env { keying: k, pool: if hr.chance(1, 8) { 1 } else { 2 + hr.below(15) }, sched: crate::core::rng::mix(seed, 0x5c + i as u64) }).collect();
            return case;
        }
        if self.hub_one_in > 0 && hr.chance(1, self.hub_one_in) {
            let regime = *hr.pick(&self.regimes);
            let mut wr = Rng::new(seed, "workload.hub");
            let (specs, ops) = gen::gen_hub_graph(&mut wr, directed, multi, self_loops, regime);
            let mut case = Case::new(prop, seed, specs);
            case.ops = ops;
            case.params.put("source", J::s("more than 4096 nodes, hub adjacent to more than 4096"));
            case.params.put("regime", J::s(&format!("{:?}", regime)));
            case.envs = gen::keyings(seed, self.keyings.min(3)).into_iter().enumerate().map(|(i, k)| Env { keying: k, pool: if hr.chance(1, 8) { 1 } else { 2 + hr.below(15) }, sched: crate::core::rng::mix(seed, 0x5c + i as u64) }).collect();
            return case;
        }
        if rng.chance(self.boundary_per_mille, 1000) {
            let n = *rng.pick(&[31usize, 32, 33, 63, 64, 65, 127, 128, 129, 255, 256, 257]);
            let mut wr = Rng::new(seed, "workload.boundary");
            let shape = *wr.pick(&[Shape::Cycle, Shape::Path, Shape::Union, Shape::Tree, Shape::SparseRandom, Shape::Star, Shape::Wheel, Shape::RingOfCliques]);
            // names in descending sort order half of the time (insertion order = reverse of sort order)
            let o = GraphOpts { directed, multi, self_loops, n_min: n, n_max: n, regime, shape: Some(shape), sprinkle: true };
            let (specs, ops) = gen::gen_graph(&mut wr, &o);
            let mut case = Case::new(prop, seed, specs);
            case.ops = ops;
            case.params.put("source", J::s("size boundary"));
            case.params.put("regime", J::s(&format!("{:?}", regime)));
            case.envs = gen::envs(seed, self.keyings);
            return case;
        }
        let mut wr = Rng::new(seed, "workload");
        let mut case;
        if !large && rng.chance(self.lifecycle_pct, 100) {
            let specs = Specs { directed, multi, self_loops, dedupe: *rng.pick(&[Dedupe::KeepFirst, Dedupe::KeepLast, Dedupe::Error]), missing: Missing::Create, slf: Slf::Drop };
            case = Case::new(prop, seed, specs);
            let o = HistOpts { specs, max_ops: 20, regime, derived: false, restart: false, names_min: 3, names_max: 8, dup_bias: 25, big: false };
            case.ops = gen::gen_history(&mut wr, &o);
            if regime != WeightRegime::AllNan && regime != WeightRegime::Mixed {
                for op in case.ops.iter_mut() {
                    match op {
                        Op::AddEdgeTuple(u, v) => *op = Op::AddEdge(E { u: u.clone(), v: v.clone(), w: wbits(regime.draw(&mut rng)), attr: None }),
                        Op::AddEdgeTuples(ps) => *op = Op::AddEdges(ps.iter().map(|(u, v)| E { u: u.clone(), v: v.clone(), w: wbits(regime.draw(&mut rng)), attr: None }).collect()),
                        _ => {}
                    }
                }
            }
            case.params.put("source", J::s("lifecycle"));
        } else {
            let (lo, hi) = if large { self.n_large } else { self.n_small };
            let shape = self.shapes.as_ref().map(|v| *rng.pick(v));
            let o = GraphOpts { directed, multi, self_loops, n_min: lo, n_max: hi, regime, shape, sprinkle: true };
            let (specs, ops) = gen::gen_graph(&mut wr, &o);
            case = Case::new(prop, seed, specs);
            case.ops = ops;
            case.params.put("source", J::s("shape"));
        }
        let pool = if large {
            if rng.chance(1, 25) {
                *rng.pick(&[24usize, 32, 48, 64])
            } else {
                1 + rng.below(16)
            }
        } else {
            1 + rng.below(4)
        };
        case.envs = gen::keyings(seed, self.keyings).into_iter().enumerate().map(|(i, k)| Env { keying: k, pool: if i == 0 { pool } else { 1 + rng.below(16) }, sched: crate::core::rng::mix(seed, 0x5c + i as u64) }).collect();
        case.params.put("regime", J::s(&format!("{:?}", regime)));
        case
    }
}

/// Fault then recovery: before the judged queries, run searches that FAIL on this thread / in this pool
/// (a negative edge makes an already finalised node cheaper -> ContradictoryPaths, or a panic inside the
/// parallel driver). Their results are not judged (negative weights are outside every property); what is
/// judged is that the valid calls that follow are unaffected by the failed ones.
pub fn poison_prelude(env: &Env, cx: &mut Ctx) {
    use graphrs::algorithms::shortest_path::dijkstra;
    let specs = Specs::kind(true, false, false);
    let mut ops = vec![
        Op::AddEdge(E::new("s", "a", 1.0)),
        Op::AddEdge(E::new("s", "b", 2.0)),
        Op::AddEdge(E::new("b", "a", -5.0)),
        Op::AddEdge(E::new("a", "c", 1.0)),
        Op::AddEdge(E::new("c", "d", 1.0)),
    ];
    if env.keying % 2 == 1 {
        // a larger variant that takes the parallel path when the pool has more than one worker
        for i in 0..24 {
            ops.push(Op::AddEdge(E::new(&format!("p{}", i), &format!("p{}", i + 1), 1.0)));
        }
        ops.push(Op::AddEdge(E::new("d", "p0", 1.0)));
    }
    let g = match real::build(specs, &ops) {
        Ok(g) => g,
        Err(_) => return,
    };
    let b = crate::core::rt::budget(32, 32);
    let mut failed = 0;
    let mut early = 0;
    // the order varies: what is left behind by the LAST call before the judged ones is what matters
    let order: &[u8] = match (env.sched ^ env.keying) % 3 {
        0 => &[0, 1],
        1 => &[1, 0],
        _ => &[0],
    };
    for block in order {
        if *block == 0 {
            for with_paths in [false, true] {
                match crate::core::rt::call("poison:single_source", b, || dijkstra::single_source(&g, true, "s".to_string(), None, None, false, with_paths)) {
                    Ok(Ok(_)) => {}
                    _ => failed += 1,
                }
            }
            match crate::core::rt::call("poison:multi_source", b, || crate::pool::scoped(env.pool, || dijkstra::multi_source(&g, true, vec!["s".to_string(), "b".to_string()], Some("d".to_string()), None, false, true))) {
                Ok(Ok(_)) => {}
                _ => failed += 1,
            }
            match crate::core::rt::call("poison:all_pairs", b, || crate::pool::scoped(env.pool, || dijkstra::all_pairs(&g, true, None, None, false, true))) {
                Ok(Ok(_)) => {}
                _ => failed += 1,
            }
        } else {
            // valid searches that stop early at a target (unweighted, so the negative edge does not matter): whatever
            // they leave behind - a fringe that was not drained, a scratch table - must not reach the judged calls
            for (t, first_only, with_paths) in [("a", false, false), ("b", true, true), ("c", false, true), ("a", true, false)] {
                if let Ok(Ok(_)) = crate::core::rt::call("prelude:single_source(target)", b, || dijkstra::single_source(&g, false, "s".to_string(), Some(t.to_string()), None, first_only, with_paths)) {
                    early += 1;
                }
            }
            if let Ok(Ok(_)) = crate::core::rt::call("prelude:all_pairs(target)", b, || crate::pool::scoped(env.pool, || dijkstra::all_pairs(&g, false, Some("a".to_string()), None, false, false))) {
                early += 1;
            }
        }
    }
    cx.add("fault.searches_stopped_early_before_the_judged_ones", early);
    cx.count("probe.poison_prelude");
    cx.add("fault.failed_searches_before_the_judged_ones", failed);
}

/// The same graph with its nodes declared in another (seeded) order: same names, same edges, other positions.
/// Used as "what ran on this thread before": calls on it must not change what later calls on the case's own
/// graph return.
pub fn sibling(case: &Case) -> Option<G> {
    let at = case.ops.iter().position(|o| matches!(o, Op::AddNodes(_)))?;
    let mut ops = case.ops.clone();
    if let Op::AddNodes(ns) = &mut ops[at] {
        if ns.len() < 2 {
            return None;
        }
        let mut r = Rng::new(case.seed, "sibling");
        let before = ns.clone();
        r.shuffle(ns);
        if *ns == before {
            ns.reverse();
        }
    }
    real::build(case.specs, &ops).ok()
}

/// Counters that wrap: a judged call is repeated after exactly 255, 256, 32 767, 32 768, 65 535 and 65 536 further
/// calls (counted per call and per inner unit, e.g. per source of an all-sources function) of a trivial filler call
/// on the same thread. `judged(k)` makes the k-th judged call and renders its answer; calls with the same k % 2
/// have the same arguments and must give the same answer. Epoch stamps of 8 or 16 bits, generation counters and
/// ring indices alias at these distances.
pub fn wrap_probe(cx: &mut Ctx, id: &str, what: &str, inner: usize, mut judged: impl FnMut(usize) -> Option<String>, mut filler: impl FnMut()) {
    let mut firsts: [Option<String>; 2] = [None, None];
    let mut k = 0usize;
    let mut check = |k: usize, cx: &mut Ctx, firsts: &mut [Option<String>; 2], judged: &mut dyn FnMut(usize) -> Option<String>, after: usize| -> bool {
        let r = match judged(k) {
            Some(r) => r,
            None => return false,
        };
        match &firsts[k % 2] {
            None => firsts[k % 2] = Some(r),
            Some(f) => {
                if f != &r {
                    cx.fail(&format!("{}.depends_on_call_count", id), &format!("{} changes after many calls on the thread", what), format!("{}: the answer to the same call differs after {} further calls on the same thread: first {} then {}", what, after, &f[..f.len().min(600)], &r[..r.len().min(600)]));
                    return false;
                }
            }
        }
        true
    };
    if !check(k, cx, &mut firsts, &mut judged, 0) {
        return;
    }
    k += 1;
    if !check(k, cx, &mut firsts, &mut judged, 0) {
        return;
    }
    let mut fillers = 0u64;
    for units in [1usize, inner.max(1)] {
        for d in [255usize, 256, 32_767, 32_768, 65_535, 65_536] {
            // the next judged call starts exactly d units after the previous one started (a judged call uses `units`)
            if d <= units {
                continue;
            }
            for _ in 0..(d - units) {
                filler();
            }
            fillers += (d - units) as u64;
            k += 1;
            if !check(k, cx, &mut firsts, &mut judged, d) {
                return;
            }
        }
        if inner <= 1 {
            break;
        }
    }
    cx.count("probe.counter_wrap_probe");
    cx.add("fault.filler_calls_between_repeated_judged_calls", fillers);
}

pub type SpMap = BTreeMap<String, (f64, Vec<Vec<String>>)>;

pub fn sp_conv(m: HashMap<String, ShortestPathInfo<String>>) -> SpMap {
    m.into_iter().map(|(k, v)| (k, (v.distance, v.paths))).collect()
}
pub fn sp2_conv(m: HashMap<String, HashMap<String, ShortestPathInfo<String>>>) -> BTreeMap<String, SpMap> {
    m.into_iter().map(|(k, v)| (k, sp_conv(v))).collect()
}

/// bit-exact rendering (for cross-environment / cross-schedule comparison)
pub fn sp_bits(m: &SpMap) -> String {
    let mut s = String::new();
    for (k, (d, p)) in m {
        s.push_str(&format!("{:?}:{:016x}:{:?};", k, d.to_bits(), p));
    }
    s
}

pub struct SpCheck<'a> {
    pub first_only: bool,
    pub with_paths: bool,
    /// compare the path *sets* (strictly positive, exactly summable weights)
    pub sets: bool,
    /// strictly positive weights whose sums are not exact: the oracle for the reading "path lengths are
    /// accumulated floats, ties bit for bit"; the number of paths must fit this reading or the tolerant one
    pub fo: Option<&'a DistOracle>,
}

/// number of returned paths under inexactly summable weights: all shortest paths under one of the two readings
fn count_fits(o: &SpCheck, orc: &DistOracle, s: usize, t: usize, paths: &[Vec<String>], cap: usize) -> Result<(), String> {
    if let (Some(fo), true, false) = (o.fo, o.with_paths, o.first_only) {
        let uniq: BTreeSet<&Vec<String>> = paths.iter().collect();
        if uniq.len() != paths.len() {
            return Err(format!("duplicate paths in {:?}", paths));
        }
        let a = fo.sigma_from(s)[t];
        let b = orc.sigma_from(s)[t];
        if a <= cap as f64 && b <= cap as f64 && paths.len() as f64 != a && paths.len() as f64 != b {
            return Err(format!("{} paths returned {:?}; there are {} shortest paths when lengths are compared as accumulated floats and {} when ties are taken at 1e-9", paths.len(), paths, a, b));
        }
    }
    Ok(())
}

/// Is `got` a correct answer of a single-source search from `s` (no target, no cutoff)?
pub fn verify_single_source(snap: &Snap, orc: &DistOracle, s: usize, got: &SpMap, o: &SpCheck, sig_paths_cap: usize) -> Result<(), (String, String)> {
    let n = snap.n();
    let sname = &snap.names[s];
    let reach: BTreeSet<&String> = (0..n).filter(|t| orc.d[s][*t] < INF).map(|t| &snap.names[t]).collect();
    let keys: BTreeSet<&String> = got.keys().collect();
    if keys != reach {
        return Err(("reported nodes != reachable nodes".into(), format!("from {:?}: reported {:?}, reachable {:?}", sname, keys, reach)));
    }
    let pos = |x: &String| snap.names.iter().position(|y| y == x);
    let sigma = if o.sets && o.with_paths { Some(orc.sigma_from(s)) } else { None };
    for t in 0..n {
        if orc.d[s][t] == INF {
            continue;
        }
        let (d, paths) = &got[&snap.names[t]];
        let exp = orc.d[s][t];
        let ok = if orc.exact { *d == exp } else { crate::oracle::close_rel(*d, exp) };
        if !ok {
            return Err(("distance".into(), format!("distance {:?} -> {:?} reported {} but the shortest path length is {}", sname, snap.names[t], d, exp)));
        }
        if !o.with_paths {
            if !paths.is_empty() {
                return Err(("paths not empty with with_paths=false".into(), format!("{:?} -> {:?}: with_paths=false but paths = {:?}", sname, snap.names[t], paths)));
            }
            continue;
        }
        if paths.is_empty() {
            return Err(("no path for a reachable node".into(), format!("{:?} -> {:?} is reachable (distance {}) but no path is returned", sname, snap.names[t], d)));
        }
        for p in paths {
            if p.first() != Some(sname) || p.last() != Some(&snap.names[t]) {
                return Err(("path endpoints".into(), format!("path {:?} does not run from {:?} to {:?}", p, sname, snap.names[t])));
            }
            let mut tot = 0.0;
            for w in p.windows(2) {
                let (a, b) = match (pos(&w[0]), pos(&w[1])) {
                    (Some(a), Some(b)) => (a, b),
                    _ => return Err(("path names unknown node".into(), format!("path {:?} names a node that does not exist", p))),
                };
                match orc.adj[a].iter().find(|x| x.0 == b) {
                    Some(x) => tot += x.1,
                    None => return Err(("path uses a missing edge".into(), format!("path {:?}: there is no edge {:?} -> {:?}", p, w[0], w[1]))),
                }
            }
            let ok = if orc.exact { tot == *d } else { crate::oracle::close_rel(tot, *d) };
            if !ok {
                return Err(("path weight != distance".into(), format!("path {:?} weighs {} but the reported distance is {}", p, tot, d)));
            }
        }
        if o.first_only && paths.len() != 1 {
            return Err(("first_only returned != 1 path".into(), format!("{:?} -> {:?}: first_only=true returned {} paths: {:?}", sname, snap.names[t], paths.len(), paths)));
        }
        if let Err(d) = count_fits(o, orc, s, t, paths, sig_paths_cap) {
            return Err(("not all shortest paths returned [inexactly summable weights]".into(), format!("{:?} -> {:?}: {}", sname, snap.names[t], d)));
        }
        if let (Some(sig), false) = (&sigma, o.first_only) {
            let uniq: BTreeSet<&Vec<String>> = paths.iter().collect();
            if uniq.len() != paths.len() {
                return Err(("a shortest path is returned twice".into(), format!("{:?} -> {:?}: duplicate paths in {:?}", sname, snap.names[t], paths)));
            }
            if sig[t] <= sig_paths_cap as f64 && paths.len() as f64 != sig[t] {
                let all = orc.all_paths(s, t, 64).map(|v| v.into_iter().map(|p| p.into_iter().map(|i| snap.names[i].clone()).collect::<Vec<_>>()).collect::<Vec<_>>());
                return Err(("not all shortest paths returned".into(), format!("{:?} -> {:?}: {} paths returned {:?} but there are {} shortest paths {:?}", sname, snap.names[t], paths.len(), paths, sig[t], all)));
            }
        }
    }
    Ok(())
}

/// A search restricted by a target: every reported node must carry its true distance and valid shortest
/// paths, and the target must be reported iff it is reachable, with all (or, first_only, exactly one of) its
/// shortest paths.
pub fn verify_with_target(snap: &Snap, orc: &DistOracle, s: usize, t: usize, got: &SpMap, o: &SpCheck, cap: usize) -> Result<(), (String, String)> {
    let sname = &snap.names[s];
    let tname = &snap.names[t];
    let pos = |x: &String| snap.names.iter().position(|y| y == x);
    if (orc.d[s][t] < INF) != got.contains_key(tname) {
        return Err(("target reported iff reachable".into(), format!("{:?} -> target {:?}: reachable = {}, reported = {}", sname, tname, orc.d[s][t] < INF, got.contains_key(tname))));
    }
    let sigma = if o.sets && o.with_paths && !o.first_only { Some(orc.sigma_from(s)) } else { None };
    for (k, (d, paths)) in got {
        let v = match pos(k) {
            Some(v) => v,
            None => return Err(("reported node does not exist".into(), format!("{:?} is reported but is not a node", k))),
        };
        let exp = orc.d[s][v];
        let ok = if orc.exact { *d == exp } else { crate::oracle::close_rel(*d, exp) };
        if !ok {
            return Err(("distance (with target)".into(), format!("search {:?} -> target {:?}: node {:?} reported at distance {} but the shortest path length is {}", sname, tname, k, d, exp)));
        }
        if !o.with_paths {
            continue;
        }
        for p in paths {
            if p.first() != Some(sname) || p.last() != Some(k) {
                return Err(("path endpoints (with target)".into(), format!("path {:?} does not run from {:?} to {:?}", p, sname, k)));
            }
            let mut tot = 0.0;
            for w in p.windows(2) {
                match (pos(&w[0]), pos(&w[1])) {
                    (Some(a), Some(b)) => match orc.adj[a].iter().find(|x| x.0 == b) {
                        Some(x) => tot += x.1,
                        None => return Err(("path uses a missing edge (with target)".into(), format!("path {:?}: no edge {:?} -> {:?}", p, w[0], w[1]))),
                    },
                    _ => return Err(("path names unknown node".into(), format!("path {:?}", p))),
                }
            }
            let ok = if orc.exact { tot == *d } else { crate::oracle::close_rel(tot, *d) };
            if !ok {
                return Err(("path weight != distance (with target)".into(), format!("path {:?} weighs {} but the reported distance is {}", p, tot, d)));
            }
        }
        if v == t {
            if paths.is_empty() {
                return Err(("no path to the target".into(), format!("{:?} -> {:?}: reachable but no path", sname, tname)));
            }
            if o.first_only && paths.len() != 1 {
                return Err(("first_only returned != 1 path (with target)".into(), format!("{:?} -> {:?}: {} paths", sname, tname, paths.len())));
            }
            if let Err(d) = count_fits(o, orc, s, t, paths, cap) {
                return Err(("not all shortest paths to the target [inexactly summable weights]".into(), format!("{:?} -> target {:?}: {}", sname, tname, d)));
            }
            if let Some(sig) = &sigma {
                let uniq: BTreeSet<&Vec<String>> = paths.iter().collect();
                if uniq.len() != paths.len() || (sig[t] <= cap as f64 && paths.len() as f64 != sig[t]) {
                    return Err(("not all shortest paths to the target".into(), format!("{:?} -> target {:?}: {} paths returned {:?} but there are {} shortest paths", sname, tname, paths.len(), paths, sig[t])));
                }
            }
        }
    }
    Ok(())
}

/// largest number of shortest paths between any pair (to keep path enumeration affordable)
pub fn sigma_max(orc: &DistOracle) -> f64 {
    let mut mx: f64 = 0.0;
    for s in 0..orc.n {
        for x in orc.sigma_from(s) {
            if x > mx {
                mx = x
            }
        }
    }
    mx
}

/// Can float path sums tell the weights apart? When the largest weight is more than 1e9 times the smallest,
/// adding a light edge to a long path may not change the sum at all (absorption): the light edges then act as
/// zero-weight edges, for which no property promises path sets. Only distances are compared on such graphs.
pub fn comparable_scale(snap: &Snap) -> bool {
    let mut lo = f64::INFINITY;
    let mut hi: f64 = 0.0;
    for e in &snap.edges {
        if e.2 > 0.0 && e.2.is_finite() {
            lo = lo.min(e.2);
            hi = hi.max(e.2);
        }
    }
    hi == 0.0 || hi / lo <= 1e9
}

pub fn all_positive(snap: &Snap) -> bool {
    snap.edges.iter().all(|e| e.2 > 0.0)
}
pub fn non_negative(snap: &Snap) -> bool {
    snap.edges.iter().all(|e| e.2 >= 0.0)
}
