//! Shared machinery of the algorithm properties (C04-C08, C10-C13, C17, C18): case generation from
//! structured graphs or lifecycle histories, building, and canonical forms of results.
use crate::core::case::*;
use crate::core::json::J;
use crate::core::real::{self, Snap, G};
use crate::core::rng::Rng;
use crate::gen::{self, GraphOpts, HistOpts, Shape, WeightRegime};
use crate::oracle::dist::{DistOracle, INF};
use crate::runner::Ctx;
use graphrs::algorithms::shortest_path::ShortestPathInfo;
use std::collections::{BTreeMap, BTreeSet, HashMap};

pub struct Built {
    pub g: G,
    pub snap: Snap,
}

/// Build the graph of a case (rejected operations are C01's business) and snapshot it through the public API.
pub fn build(case: &Case, cx: &mut Ctx) -> Option<Built> {
    let g = match real::build(case.specs, &case.ops) {
        Ok(g) => g,
        Err(p) => {
            cx.fail(&format!("{}.build_panic", case.prop), "build", format!("building the graph panicked: {}", p.0));
            return None;
        }
    };
    let snap = match Snap::of(&g) {
        Ok(s) => s,
        Err(p) => {
            cx.fail(&format!("{}.build_panic", case.prop), "observe", format!("reading the graph panicked: {}", p.0));
            return None;
        }
    };
    cx.ev(super::lifecycle::ops_hash(&case.ops));
    cx.max("max.nodes", snap.n() as u64);
    cx.max("max.edges", snap.edges.len() as u64);
    cx.count(&format!("kind.{}{}{}", if snap.directed { "directed" } else { "undirected" }, if snap.multi { "+multi" } else { "" }, if snap.edges.iter().any(|e| e.0 == e.1) { "+loops" } else { "" }));
    if snap.n() > 20 {
        cx.count("probe.above_parallel_threshold");
    }
    Some(Built { g, snap })
}

pub struct AlgoGen {
    /// fraction (out of 100) of cases with more than 20 nodes
    pub large_pct: u32,
    pub n_small: (usize, usize),
    pub n_large: (usize, usize),
    pub regimes: Vec<WeightRegime>,
    pub kinds: Vec<(bool, bool, bool)>,
    pub shapes: Option<Vec<Shape>>,
    /// fraction (out of 100) of the small cases that come from a lifecycle history rather than a shape
    pub lifecycle_pct: u32,
    pub keyings: usize,
    /// fraction (out of 1000) of cases whose node count sits on a power-of-two boundary (31..33, ..., 255..257)
    pub boundary_per_mille: u32,
    /// one case in this many is a dense graph with thousands of edges (0 = never)
    pub huge_one_in: u32,
    /// one case in this many is a graph of more than 4 096 nodes with a hub adjacent to more than 4 096 (0 = never)
    pub hub_one_in: u32,
}

impl AlgoGen {
    pub fn all_kinds() -> Vec<(bool, bool, bool)> {
        (0..8).map(gen::kind_from).collect()
    }
    pub fn single_edge_kinds() -> Vec<(bool, bool, bool)> {
        (0..8).map(gen::kind_from).filter(|k| !k.1).collect()
    }
    pub fn gen(&self, prop: &str, seed: u64, idx: u64) -> Case {
        let mut rng = Rng::new(seed, "config");
        let (directed, multi, self_loops) = self.kinds[(idx as usize) % self.kinds.len()];
        let regime = *rng.pick(&self.regimes);
        let large = rng.chance(self.large_pct, 100);
        let mut hr = Rng::new(seed, "config.huge");
        if self.huge_one_in > 0 && hr.chance(1, self.huge_one_in) {
            let regime = *hr.pick(&self.regimes);
            let mut wr = Rng::new(seed, "workload.huge");
            let (specs, ops) = gen::gen_dense_graph(&mut wr, directed, multi, self_loops, regime);
            let mut case = Case::new(prop, seed, specs);
            case.ops = ops;
            case.params.put("source", J::s("dense graph with thousands of edges"));
            case.params.put("regime", J::s(&format!("{:?}", regime)));
            case.envs = gen::keyings(seed, self.keyings).into_iter().enumerate().map(|(i, k)| Env { keying: k, pool: if hr.chance(1, 8) { 1 } else { 2 + hr.below(15) }, sched: crate::core::rng::mix(seed, 0x5c + i as u64) }).collect();
            return case;
        }
        if self.hub_one_in > 0 && hr.chance(1, self.hub_one_in) {
            let regime = *hr.pick(&self.regimes);
            let mut wr = Rng::new(seed, "workload.hub");
            let (specs, ops) = gen::gen_hub_graph(&mut wr, directed, multi, self_loops, regime);
            let mut case = Case::new(prop, seed, specs);
            case.ops = ops;
            case.params.put("source", J::s("more than 4096 nodes, hub adjacent to more than 4096"));
            case.params.put("regime", J::s(&format!("{:?}", regime)));
            case.envs = gen::keyings(seed, self.keyings.min(3)).into_iter().enumerate().map(|(i, k)| Env { keying: k, pool: if hr.chance(1, 8) { 1 } else { 2 + hr.below(15) }, sched: crate::core::rng::mix(seed, 0x5c + i as u64) }).collect();
            return case;
        }
        if rng.chance(self.boundary_per_mille, 1000) {
            let n = *rng.pick(&[31usize, 32, 33, 63, 64, 65, 127, 128, 129, 255, 256, 257]);
            let mut wr = Rng::new(seed, "workload.boundary");
            let shape = *wr.pick(&[Shape::Cycle, Shape::Path, Shape::Union, Shape::Tree, Shape::SparseRandom, Shape::Star, Shape::Wheel, Shape::RingOfCliques]);
            // names in descending sort order half of the time (insertion order = reverse of sort order)
            let o = GraphOpts { directed, multi, self_loops, n_min: n, n_max: n, regime, shape: Some(shape), sprinkle: true };
            let (specs, ops) = gen::gen_graph(&mut wr, &o);
            let mut case = Case::new(prop, seed, specs);
            case.ops = ops;
            case.params.put("source", J::s("size boundary"));
            case.params.put("regime", J::s(&format!("{:?}", regime)));
            case.envs = gen::envs(seed, self.keyings);
            return case;
        }
        let mut wr = Rng::new(seed, "workload");
        let mut case;
        if !large && rng.chance(self.lifecycle_pct, 100) {
            let specs = Specs { directed, multi, self_loops, dedupe: *rng.pick(&[Dedupe::KeepFirst, Dedupe::KeepLast, Dedupe::Error]), missing: Missing::Create, slf: Slf::Drop };
            case = Case::new(prop, seed, specs);
            let o = HistOpts { specs, max_ops: 20, regime, derived: false, restart: false, names_min: 3, names_max: 8, dup_bias: 25, big: false };
            case.ops = gen::gen_history(&mut wr, &o);
            if regime != WeightRegime::AllNan && regime != WeightRegime::Mixed {
                for op in case.ops.iter_mut() {
                    match op {
                        Op::AddEdgeTuple(u, v) => *op = Op::AddEdge(E { u: u.clone(), v: v.clone(), w: wbits(regime.draw(&mut rng)), attr: None }),
                        Op::AddEdgeTuples(ps) => *op = Op::AddEdges(ps.iter().map(|(u, v)| E { u: u.clone(), v: v.clone(), w: wbits(regime.draw(&mut rng)), attr: None }).collect()),
                        _ => {}
                    }
                }
            }
            case.params.put("source", J::s("lifecycle"));
        } else {
            let (lo, hi) = if large { self.n_large } else { self.n_small };
            let shape = self.shapes.as_ref().map(|v| *rng.pick(v));
            let o = GraphOpts { directed, multi, self_loops, n_min: lo, n_max: hi, regime, shape, sprinkle: true };
            let (specs, ops) = gen::gen_graph(&mut wr, &o);
            case = Case::new(prop, seed, specs);
            case.ops = ops;
            case.params.put("source", J::s("shape"));
        }
        let pool = if large {
            if rng.chance(1, 25) {
                *rng.pick(&[24usize, 32, 48, 64])
            } else {
                1 + rng.below(16)
            }
        } else {
            1 + rng.below(4)
        };
        case.envs = gen::keyings(seed, self.keyings).into_iter().enumerate().map(|(i, k)| Env { keying: k, pool: if i == 0 { pool } else { 1 + rng.below(16) }, sched: crate::core::rng::mix(seed, 0x5c + i as u64) }).collect();
        case.params.put("regime", J::s(&format!("{:?}", regime)));
        case
    }
}

/// Fault then recovery: before the judged queries, run searches that FAIL on this thread / in this pool
/// (a negative edge makes an already finalised node cheaper -> ContradictoryPaths, or a panic inside the
/// parallel driver). Their results are not judged (negative weights are outside every property); what is
/// judged is that the valid calls that follow are unaffected by the failed ones.
pub fn poison_prelude(env: &Env, cx: &mut Ctx) {
    use graphrs::algorithms::shortest_path::dijkstra;
    let specs = Specs::kind(true, false, false);
    let mut ops = vec![
        Op::AddEdge(E::new("s", "a", 1.0)),
        Op::AddEdge(E::new("s", "b", 2.0)),
        Op::AddEdge(E::new("b", "a", -5.0)),
        Op::AddEdge(E::new("a", "c", 1.0)),
        Op::AddEdge(E::new("c", "d", 1.0)),
    ];
    if env.keying % 2 == 1 {
        // a larger variant that takes the parallel path when the pool has more than one worker
        for i in 0..24 {
            ops.push(Op::AddEdge(E::new(&format!("p{}", i), &format!("p{}", i + 1), 1.0)));
        }
        ops.push(Op::AddEdge(E::new("d", "p0", 1.0)));
    }
    let g = match real::build(specs, &ops) {
        Ok(g) => g,
        Err(_) => return,
    };
    let b = crate::core::rt::budget(32, 32);
    let mut failed = 0;
    for with_paths in [true, false] {
        match crate::core::rt::call("poison:single_source", b, || dijkstra::single_source(&g, true, "s".to_string(), None, None, false, with_paths)) {
            Ok(Ok(_)) => {}
            _ => failed += 1,
        }
    }
    match crate::core::rt::call("poison:all_pairs", b, || crate::pool::scoped(env.pool, || dijkstra::all_pairs(&g, true, None, None, false, true))) {
        Ok(Ok(_)) => {}
        _ => failed += 1,
    }
    match crate::core::rt::call("poison:multi_source", b, || crate::pool::scoped(env.pool, || dijkstra::multi_source(&g, true, vec!["s".to_string(), "b".to_string()], Some("d".to_string()), None, false, true))) {
        Ok(Ok(_)) => {}
        _ => failed += 1,
    }
    // valid searches that stop early at a target (unweighted, so the negative edge does not matter): whatever
    // they leave behind - a fringe that was not drained, a scratch table - must not reach the judged calls
    let mut early = 0;
    for (t, first_only, with_paths) in [("a", false, false), ("b", true, true), ("c", false, true), ("a", true, false)] {
        if let Ok(Ok(_)) = crate::core::rt::call("prelude:single_source(target)", b, || dijkstra::single_source(&g, false, "s".to_string(), Some(t.to_string()), None, first_only, with_paths)) {
            early += 1;
        }
    }
    if let Ok(Ok(_)) = crate::core::rt::call("prelude:all_pairs(target)", b, || crate::pool::scoped(env.pool, || dijkstra::all_pairs(&g, false, Some("a".to_string()), None, false, false))) {
        early += 1;
    }
    cx.add("fault.searches_stopped_early_before_the_judged_ones", early);
    cx.count("probe.poison_prelude");
    cx.add("fault.failed_searches_before_the_judged_ones", failed);
}

/// The same graph with its nodes declared in another (seeded) order: same names, same edges, other positions.
/// Used as "what ran on this thread before": calls on it must not change what later calls on the case's own
/// graph return.
pub fn sibling(case: &Case) -> Option<G> {
    let at = case.ops.iter().position(|o| matches!(o, Op::AddNodes(_)))?;
    let mut ops = case.ops.clone();
    if let Op::AddNodes(ns) = &mut ops[at] {
        if ns.len() < 2 {
            return None;
        }
        let mut r = Rng::new(case.seed, "sibling");
        let before = ns.clone();
        r.shuffle(ns);
        if *ns == before {
            ns.reverse();
        }
    }
    real::build(case.specs, &ops).ok()
}

pub type SpMap = BTreeMap<String, (f64, Vec<Vec<String>>)>;

pub fn sp_conv(m: HashMap<String, ShortestPathInfo<String>>) -> SpMap {
    m.into_iter().map(|(k, v)| (k, (v.distance, v.paths))).collect()
}
pub fn sp2_conv(m: HashMap<String, HashMap<String, ShortestPathInfo<String>>>) -> BTreeMap<String, SpMap> {
    m.into_iter().map(|(k, v)| (k, sp_conv(v))).collect()
}

/// bit-exact rendering (for cross-environment / cross-schedule comparison)
pub fn sp_bits(m: &SpMap) -> String {
    let mut s = String::new();
    for (k, (d, p)) in m {
        s.push_str(&format!("{:?}:{:016x}:{:?};", k, d.to_bits(), p));
    }
    s
}

pub struct SpCheck<'a> {
    pub first_only: bool,
    pub with_paths: bool,
    /// compare the path *sets* (strictly positive, exactly summable weights)
    pub sets: bool,
    /// strictly positive weights whose sums are not exact: the oracle for the reading "path lengths are
    /// accumulated floats, ties bit for bit"; the number of paths must fit this reading or the tolerant one
    pub fo: Option<&'a DistOracle>,
}

/// number of returned paths under inexactly summable weights: all shortest paths under one of the two readings
fn count_fits(o: &SpCheck, orc: &DistOracle, s: usize, t: usize, paths: &[Vec<String>], cap: usize) -> Result<(), String> {
    if let (Some(fo), true, false) = (o.fo, o.with_paths, o.first_only) {
        let uniq: BTreeSet<&Vec<String>> = paths.iter().collect();
        if uniq.len() != paths.len() {
            return Err(format!("duplicate paths in {:?}", paths));
        }
        let a = fo.sigma_from(s)[t];
        let b = orc.sigma_from(s)[t];
        if a <= cap as f64 && b <= cap as f64 && paths.len() as f64 != a && paths.len() as f64 != b {
            return Err(format!("{} paths returned {:?}; there are {} shortest paths when lengths are compared as accumulated floats and {} when ties are taken at 1e-9", paths.len(), paths, a, b));
        }
    }
    Ok(())
}

/// Is `got` a correct answer of a single-source search from `s` (no target, no cutoff)?
pub fn verify_single_source(snap: &Snap, orc: &DistOracle, s: usize, got: &SpMap, o: &SpCheck, sig_paths_cap: usize) -> Result<(), (String, String)> {
    let n = snap.n();
    let sname = &snap.names[s];
    let reach: BTreeSet<&String> = (0..n).filter(|t| orc.d[s][*t] < INF).map(|t| &snap.names[t]).collect();
    let keys: BTreeSet<&String> = got.keys().collect();
    if keys != reach {
        return Err(("reported nodes != reachable nodes".into(), format!("from {:?}: reported {:?}, reachable {:?}", sname, keys, reach)));
    }
    let pos = |x: &String| snap.names.iter().position(|y| y == x);
    let sigma = if o.sets && o.with_paths { Some(orc.sigma_from(s)) } else { None };
    for t in 0..n {
        if orc.d[s][t] == INF {
            continue;
        }
        let (d, paths) = &got[&snap.names[t]];
        let exp = orc.d[s][t];
        let ok = if orc.exact { *d == exp } else { crate::oracle::close_rel(*d, exp) };
        if !ok {
            return Err(("distance".into(), format!("distance {:?} -> {:?} reported {} but the shortest path length is {}", sname, snap.names[t], d, exp)));
        }
        if !o.with_paths {
            if !paths.is_empty() {
                return Err(("paths not empty with with_paths=false".into(), format!("{:?} -> {:?}: with_paths=false but paths = {:?}", sname, snap.names[t], paths)));
            }
            continue;
        }
        if paths.is_empty() {
            return Err(("no path for a reachable node".into(), format!("{:?} -> {:?} is reachable (distance {}) but no path is returned", sname, snap.names[t], d)));
        }
        for p in paths {
            if p.first() != Some(sname) || p.last() != Some(&snap.names[t]) {
                return Err(("path endpoints".into(), format!("path {:?} does not run from {:?} to {:?}", p, sname, snap.names[t])));
            }
            let mut tot = 0.0;
            for w in p.windows(2) {
                let (a, b) = match (pos(&w[0]), pos(&w[1])) {
                    (Some(a), Some(b)) => (a, b),
                    _ => return Err(("path names unknown node".into(), format!("path {:?} names a node that does not exist", p))),
                };
                match orc.adj[a].iter().find(|x| x.0 == b) {
                    Some(x) => tot += x.1,
                    None => return Err(("path uses a missing edge".into(), format!("path {:?}: there is no edge {:?} -> {:?}", p, w[0], w[1]))),
                }
            }
            let ok = if orc.exact { tot == *d } else { crate::oracle::close_rel(tot, *d) };
            if !ok {
                return Err(("path weight != distance".into(), format!("path {:?} weighs {} but the reported distance is {}", p, tot, d)));
            }
        }
        if o.first_only && paths.len() != 1 {
            return Err(("first_only returned != 1 path".into(), format!("{:?} -> {:?}: first_only=true returned {} paths: {:?}", sname, snap.names[t], paths.len(), paths)));
        }
        if let Err(d) = count_fits(o, orc, s, t, paths, sig_paths_cap) {
            return Err(("not all shortest paths returned [inexactly summable weights]".into(), format!("{:?} -> {:?}: {}", sname, snap.names[t], d)));
        }
        if let (Some(sig), false) = (&sigma, o.first_only) {
            let uniq: BTreeSet<&Vec<String>> = paths.iter().collect();
            if uniq.len() != paths.len() {
                return Err(("a shortest path is returned twice".into(), format!("{:?} -> {:?}: duplicate paths in {:?}", sname, snap.names[t], paths)));
            }
            if sig[t] <= sig_paths_cap as f64 && paths.len() as f64 != sig[t] {
                let all = orc.all_paths(s, t, 64).map(|v| v.into_iter().map(|p| p.into_iter().map(|i| snap.names[i].clone()).collect::<Vec<_>>()).collect::<Vec<_>>());
                return Err(("not all shortest paths returned".into(), format!("{:?} -> {:?}: {} paths returned {:?} but there are {} shortest paths {:?}", sname, snap.names[t], paths.len(), paths, sig[t], all)));
            }
        }
    }
    Ok(())
}

/// A search restricted by a target: every reported node must carry its true distance and valid shortest
/// paths, and the target must be reported iff it is reachable, with all (or, first_only, exactly one of) its
/// shortest paths.
pub fn verify_with_target(snap: &Snap, orc: &DistOracle, s: usize, t: usize, got: &SpMap, o: &SpCheck, cap: usize) -> Result<(), (String, String)> {
    let sname = &snap.names[s];
    let tname = &snap.names[t];
    let pos = |x: &String| snap.names.iter().position(|y| y == x);
    if (orc.d[s][t] < INF) != got.contains_key(tname) {
        return Err(("target reported iff reachable".into(), format!("{:?} -> target {:?}: reachable = {}, reported = {}", sname, tname, orc.d[s][t] < INF, got.contains_key(tname))));
    }
    let sigma = if o.sets && o.with_paths && !o.first_only { Some(orc.sigma_from(s)) } else { None };
    for (k, (d, paths)) in got {
        let v = match pos(k) {
            Some(v) => v,
            None => return Err(("reported node does not exist".into(), format!("{:?} is reported but is not a node", k))),
        };
        let exp = orc.d[s][v];
        let ok = if orc.exact { *d == exp } else { crate::oracle::close_rel(*d, exp) };
        if !ok {
            return Err(("distance (with target)".into(), format!("search {:?} -> target {:?}: node {:?} reported at distance {} but the shortest path length is {}", sname, tname, k, d, exp)));
        }
        if !o.with_paths {
            continue;
        }
        for p in paths {
            if p.first() != Some(sname) || p.last() != Some(k) {
                return Err(("path endpoints (with target)".into(), format!("path {:?} does not run from {:?} to {:?}", p, sname, k)));
            }
            let mut tot = 0.0;
            for w in p.windows(2) {
                match (pos(&w[0]), pos(&w[1])) {
                    (Some(a), Some(b)) => match orc.adj[a].iter().find(|x| x.0 == b) {
                        Some(x) => tot += x.1,
                        None => return Err(("path uses a missing edge (with target)".into(), format!("path {:?}: no edge {:?} -> {:?}", p, w[0], w[1]))),
                    },
                    _ => return Err(("path names unknown node".into(), format!("path {:?}", p))),
                }
            }
            let ok = if orc.exact { tot == *d } else { crate::oracle::close_rel(tot, *d) };
            if !ok {
                return Err(("path weight != distance (with target)".into(), format!("path {:?} weighs {} but the reported distance is {}", p, tot, d)));
            }
        }
        if v == t {
            if paths.is_empty() {
                return Err(("no path to the target".into(), format!("{:?} -> {:?}: reachable but no path", sname, tname)));
            }
            if o.first_only && paths.len() != 1 {
                return Err(("first_only returned != 1 path (with target)".into(), format!("{:?} -> {:?}: {} paths", sname, tname, paths.len())));
            }
            if let Err(d) = count_fits(o, orc, s, t, paths, cap) {
                return Err(("not all shortest paths to the target [inexactly summable weights]".into(), format!("{:?} -> target {:?}: {}", sname, tname, d)));
            }
            if let Some(sig) = &sigma {
                let uniq: BTreeSet<&Vec<String>> = paths.iter().collect();
                if uniq.len() != paths.len() || (sig[t] <= cap as f64 && paths.len() as f64 != sig[t]) {
                    return Err(("not all shortest paths to the target".into(), format!("{:?} -> target {:?}: {} paths returned {:?} but there are {} shortest paths", sname, tname, paths.len(), paths, sig[t])));
                }
            }
        }
    }
    Ok(())
}

/// largest number of shortest paths between any pair (to keep path enumeration affordable)
pub fn sigma_max(orc: &DistOracle) -> f64 {
    let mut mx: f64 = 0.0;
    for s in 0..orc.n {
        for x in orc.sigma_from(s) {
            if x > mx {
                mx = x
            }
        }
    }
    mx
}

/// Can float path sums tell the weights apart? When the largest weight is more than 1e9 times the smallest,
/// adding a light edge to a long path may not change the sum at all (absorption): the light edges then act as
/// zero-weight edges, for which no property promises path sets. Only distances are compared on such graphs.
pub fn comparable_scale(snap: &Snap) -> bool {
    let mut lo = f64::INFINITY;
    let mut hi: f64 = 0.0;
    for e in &snap.edges {
        if e.2 > 0.0 && e.2.is_finite() {
            lo = lo.min(e.2);
            hi = hi.max(e.2);
        }
    }
    hi == 0.0 || hi / lo <= 1e9
}

pub fn all_positive(snap: &Snap) -> bool {
    snap.edges.iter().all(|e| e.2 > 0.0)
}
pub fn non_negative(snap: &Snap) -> bool {
    snap.edges.iter().all(|e| e.2 >= 0.0)
}
