//! C01 — mutations follow GraphSpecs exactly; a rejected operation changes nothing.
use super::lifecycle::{self, Arms};
use super::{Prop, Tier};
use crate::core::case::*;
use crate::core::model::{Expect, Model, Out};
use crate::core::real::Obs;
use crate::core::rng::Rng;
use crate::core::rt::Panicked;
use crate::gen;
use crate::runner::{Ctx, EnvResult};

pub struct C01Prop;
pub static C01: C01Prop = C01Prop;

#[allow(clippy::too_many_arguments)]
pub fn check_step(i: usize, op: &Op, pre: &Obs, out: &Result<Out, Panicked>, exp: &Expect, post: &Obs, m: &Model, m_pre: &Model, case: &Case, cx: &mut Ctx) -> bool {
    let s = case.specs;
    // coverage: which policy branches this step exercised
    if let Op::AddEdge(e) = op {
        let ms = m_pre.specs;
        if let Some(x) = m_pre.edges.iter().find(|x| m_pre.joins(x, &e.u, &e.v)) {
            cx.count(&format!("dup_hit.{}", if ms.multi { "multi".to_string() } else { format!("{:?}", ms.dedupe) }));
            if !ms.directed && x.u == e.v && x.v == e.u && e.u != e.v {
                cx.count("dup_hit.opposite_orientation");
            }
            if !ms.multi && ms.dedupe == Dedupe::KeepLast && f64::from_bits(e.w) > f64::from_bits(x.w) {
                cx.count("probe.keeplast_replaced_by_heavier");
            }
        }
        if e.u == e.v {
            cx.count(&format!("self_loop.{}", if ms.self_loops { "stored".to_string() } else { format!("{:?}", ms.slf) }));
        }
        if !m_pre.has(&e.u) || !m_pre.has(&e.v) {
            cx.count(&format!("unknown_node.{:?}", ms.missing));
        }
    }
    if let Op::AddNode(n) = op {
        if m_pre.has(&n.0) {
            cx.count("probe.readd_existing_node");
        }
    }
    let batch_len = match op {
        Op::AddEdges(v) => Some(v.len()),
        Op::AddEdgeTuples(v) => Some(v.len()),
        _ => None,
    };
    if let (Some(len), true) = (batch_len, exp.is_err()) {
        // position of the failing element, from the model
        let mut t = m_pre.clone();
        let mut k = 0;
        match op {
            Op::AddEdges(v) => {
                for e in v {
                    if t.add_edge(e).is_err() {
                        break;
                    }
                    k += 1;
                }
            }
            Op::AddEdgeTuples(v) => {
                for (a, b) in v {
                    if t.add_edge(&E { u: a.clone(), v: b.clone(), w: NAN_BITS, attr: None }).is_err() {
                        break;
                    }
                    k += 1;
                }
            }
            _ => {}
        }
        cx.count(&format!("batch_failed_at.{}_of_{}", k, len));
    }

    let o = match out {
        Ok(o) => *o,
        Err(Panicked(p)) => {
            cx.fail("C01.panic", &format!("{} panicked", op.name()), format!("step {} {} panicked: {} [{}]", i, op.name(), p, s.short()));
            return false;
        }
    };
    if !exp.accepts(o) {
        cx.fail(
            "C01.outcome",
            &format!("{} expected {:?} got {:?}", op.name(), exp.outs, o),
            format!("step {} {}: outcome {:?}, the specs dictate {:?} [{}]; op = {}", i, op.name(), o, exp.outs, m_pre.specs.short(), op.to_json().to_string()),
        );
        return false;
    }
    if let Some(d) = lifecycle::state_mismatch(post, m) {
        let oracle = if batch_len.is_some() && exp.is_err() { "C01.batch_prefix" } else { "C01.state" };
        cx.fail(oracle, &format!("{} -> {:?}", op.name(), o), format!("step {} {} returned {:?} but the resulting state differs: {} [{}]; op = {}", i, op.name(), o, d, m_pre.specs.short(), op.to_json().to_string()));
        return false;
    }
    if matches!(o, Out::Err(_)) && batch_len.is_none() && (post.canon(false) != pre.canon(false) || post.nodes != pre.nodes) {
        cx.fail("C01.atomic", &format!("{} -> {:?}", op.name(), o), format!("step {} {} returned {:?} but changed the graph: before {:?} / {:?}, after {:?} / {:?}", i, op.name(), o, pre.nodes, pre.edges, post.nodes, post.edges));
        return false;
    }
    true
}

impl Prop for C01Prop {
    fn id(&self) -> &'static str {
        "C01"
    }
    fn runs(&self, tier: Tier) -> u64 {
        match tier {
            Tier::Quick => 300_000,
            Tier::Thorough => 6_000_000,
        }
    }
    fn gen(&self, seed: u64, idx: u64, _tier: Tier) -> Case {
        let mut rng = Rng::new(seed, "config");
        let specs = Specs::from_index(idx as usize % 96);
        let mut case = Case::new("C01", seed, specs);
        {
            let mut hr = Rng::new(seed, "config.huge");
            if hr.chance(1, 1500) {
                // a graph of thousands of edges (strategy thresholds), then a short tail
                let regime = gen::regime_any2(&mut hr, true, true);
                let mut wr = Rng::new(seed, "workload.huge");
                case.ops = gen::gen_huge_history_v(&mut wr, specs, regime, false, &[0, 0, 1, 2]);
                case.params.put("source", crate::core::json::J::s("history loading thousands of edges"));
                case.envs = vec![Env { keying: if hr.chance(1, 2) { 0 } else { seed | 1 }, pool: if hr.chance(1, 8) { 1 } else { 2 + hr.below(15) }, sched: crate::core::rng::mix(seed, 78) }];
                return case;
            }
        }
        let o = gen::HistOpts { specs, max_ops: 40, regime: gen::regime_any2(&mut rng, true, true), derived: false, restart: true, names_min: 3, names_max: 8, dup_bias: 30, big: rng.chance(1, 250) };
        let mut wr = Rng::new(seed, "workload");
        case.ops = gen::gen_history(&mut wr, &o);
        case.envs = gen::envs(seed, 2);
        case
    }
    fn run_env(&self, case: &Case, _env: &Env, cx: &mut Ctx) {
        let arms = Arms { c01: true, ..Default::default() };
        if let Some((g, _m, _)) = lifecycle::drive(case, cx, &arms) {
            if let Ok(o) = crate::core::real::observe(&g) {
                cx.emit("final", format!("{:016x}", o.digest()));
                let rejected = cx.counters.iter().filter(|(k, _)| k.starts_with("rejected.")).map(|(_, v)| *v).sum::<u64>();
                if rejected > 0 && !o.edges.is_empty() {
                    cx.nt.push(crate::core::rng::mix(case.specs.index() as u64, lifecycle::ops_hash(&case.ops)));
                }
            }
        }
    }
    fn cross(&self, _case: &Case, results: &[EnvResult], cx: &mut Ctx) {
        let outs: Vec<&Vec<(String, String)>> = results.iter().map(|r| &r.cx.out).collect();
        if outs.windows(2).any(|w| w[0] != w[1]) && results.iter().all(|r| r.cx.viol.is_empty()) {
            cx.fail("C01.keying_dependent", "final state differs across hash keyings", format!("the same history produced different final states under different hash keyings: {:?}", outs));
        }
    }
    fn rule(&self) -> String {
        "lifecycle histories (0-40 ops over add_node/add_nodes/add_edge/add_edge_tuple/add_edges/add_edge_tuples/new_from_nodes_and_edges) stratified over all 96 GraphSpecs, 3-8 names whose sort order differs from insertion order, batches built to fail at a chosen element (one case in 250: batches of 64-1 600 elements over 40-1 100 names, the rejected element in the last fifth, followed by elements naming nodes not seen before); each history runs under 2 hash keyings; after EVERY op: outcome kind, full state (node list in order with attributes, edge multiset with weight bits and attributes) vs the reference model, failure atomicity vs the real pre-state, batch prefix. distinct_nontrivial = distinct (specs, history) pairs with >= 1 rejected op and >= 1 stored edge at the end; one case in 1500 loads 2 100 - 12 500 edges (one to three batches or the constructor, same edge values re-submitted on multi-edge graphs) into 45-180 nodes and continues with a short tail (strategy thresholds); the large histories come in variants: dense (45-180 nodes), 2 048 - 2 600 nodes declared in one call with a few names repeated, a hub with 1 100 - 1 600 neighbours whose pairs receive second edges in a later call; in half of them a load of 260-420 edges into ANOTHER graph is rejected part-way on the same thread first (fault, then recovery, at scale)".into()
    }
    fn assumptions(&self) -> Vec<String> {
        vec![
            "the reference model is an independent re-derivation of C01's statement (DESIGN.md Appendix A); an edge rejected for two reasons may report either".into(),
            "sizes bounded: <= 8 names, <= 40 ops per history".into(),
        ]
    }
}
