//! C04 — Dijkstra returns exactly the shortest distances and shortest paths.
use super::algo::{self, AlgoGen, SpCheck};
use super::{Prop, Tier};
use crate::core::case::*;
use crate::core::rng::Rng;
use crate::core::rt;
use crate::gen::WeightRegime;
use crate::oracle::dist::DistOracle;
use crate::pool;
use crate::runner::Ctx;
use graphrs::algorithms::shortest_path::dijkstra;
use std::collections::BTreeSet;

trait Giant: Sized {
    fn giant(self, seed: u64, idx: u64) -> Self;
}
impl Giant for Case {
    /// one case in 1 500: tens of thousands of nodes (sizes around 2^15.5 and 2^16, a fringe of more than 2^16 entries)
    fn giant(mut self, seed: u64, idx: u64) -> Case {
        let mut gr = Rng::new(seed, "config.giant");
        if gr.chance(1, 1500) {
            let mut wr = Rng::new(seed, "workload.giant");
            let (specs, ops) = crate::gen::gen_giant_graph(&mut wr, idx % 2 == 0);
            self.specs = specs;
            self.ops = ops;
            self.params.put("source", crate::core::json::J::s("tens of thousands of nodes"));
            self.envs = vec![Env { keying: if idx % 4 < 2 { 0 } else { seed | 1 }, pool: 2 + gr.below(15), sched: gr.next_u64() }];
        }
        self
    }
}

/// graphs too large for the all-pairs table: a few searches against a heap-based single-source oracle, and the
/// option combinations against each other
fn giant_check(case: &Case, env: &Env, g: &crate::core::real::G, snap: &crate::core::real::Snap, cx: &mut Ctx) {
    let n = snap.n();
    let budget = rt::budget(1000, 1000) + 4_000 * (n + snap.edges.len()) as u64;
    let adj = snap.adj_min(false);
    let mut rng = Rng::new(case.seed, "c04.giant");
    let pos = |x: &str| snap.names.iter().position(|y| y == x);
    let src0 = pos("g0").unwrap_or(0);
    let sources = [src0, rng.below(n), rng.below(n)];
    for &s in &sources {
        let exp = crate::oracle::dist::sssp_heap(&adj, s);
        let name = snap.names[s].clone();
        let far = (0..n).filter(|t| exp[*t].is_finite()).max_by(|a, b| exp[*a].total_cmp(&exp[*b])).unwrap_or(s);
        let tname = snap.names[far].clone();
        // (target, first_only, with_paths): the distances-only path, the full algorithm, a target far away with all paths
        for (t, first_only, with_paths) in [(None, false, false), (None, true, false), (Some(tname.clone()), false, true), (Some(tname.clone()), true, true)] {
            let label = format!("single_source(target={}, first_only={}, with_paths={})", t.is_some(), first_only, with_paths);
            let r = rt::call("dijkstra::single_source", budget, || dijkstra::single_source(g, true, name.clone(), t.clone(), None, first_only, with_paths));
            let got = match r {
                Ok(Ok(m)) => m,
                Ok(Err(e)) => {
                    cx.fail("C04.single_source", "single_source returned Err", format!("{} from {:?} on a valid graph of {} nodes failed: {:?} {}", label, name, n, e.kind, e.message));
                    return;
                }
                Err(p) => {
                    cx.fail("C04.panic", "single_source panicked", format!("{} from {:?} on {} nodes panicked: {}", label, name, n, p.0));
                    return;
                }
            };
            cx.count("giant.single_source_calls");
            if t.is_none() {
                let reach = exp.iter().filter(|d| d.is_finite()).count();
                if got.len() != reach {
                    cx.fail("C04.single_source", "single_source: reported nodes != reachable nodes", format!("{} from {:?}: {} nodes reported, {} reachable ({} nodes)", label, name, got.len(), reach, n));
                    return;
                }
            }
            let index: std::collections::BTreeMap<&str, usize> = snap.names.iter().enumerate().map(|(i, x)| (x.as_str(), i)).collect();
            let mut wrong = 0usize;
            let mut example = String::new();
            for (k, v) in &got {
                match index.get(k.as_str()) {
                    Some(&i) if v.distance == exp[i] => {}
                    Some(&i) => {
                        wrong += 1;
                        if example.is_empty() {
                            example = format!("{:?}: reported {} but the shortest path length is {}", k, v.distance, exp[i]);
                        }
                    }
                    None => {
                        cx.fail("C04.single_source", "reported node does not exist", format!("{:?} is reported but is not a node", k));
                        return;
                    }
                }
            }
            if wrong > 0 {
                cx.fail("C04.single_source", "single_source: distance", format!("{} from {:?} on {} nodes (pool {}): {} wrong distances, e.g. {}", label, name, n, env.pool, wrong, example));
                return;
            }
            if let Some(tn) = &t {
                if exp[far].is_finite() && !got.contains_key(tn) {
                    cx.fail("C04.single_source", "target reported iff reachable", format!("{} from {:?}: the reachable target {:?} is not reported", label, name, tn));
                    return;
                }
            }
        }
    }
    cx.count("probe.giant_graph");
    cx.states.push(super::lifecycle::ops_hash(&case.ops[..1]));
}

pub struct C04Prop;
pub static C04: C04Prop = C04Prop;

const PATH_CAP: f64 = 3000.0;

impl Prop for C04Prop {
    fn id(&self) -> &'static str {
        "C04"
    }
    fn runs(&self, tier: Tier) -> u64 {
        match tier {
            Tier::Quick => 12_000,
            Tier::Thorough => 300_000,
        }
    }
    fn gen(&self, seed: u64, idx: u64, _tier: Tier) -> Case {
        AlgoGen {
            large_pct: 25,
            n_small: (0, 10),
            n_large: (21, 60),
            regimes: vec![WeightRegime::AllNan, WeightRegime::Dyadic, WeightRegime::Dyadic, WeightRegime::SmallInt, WeightRegime::ZeroDyadic, WeightRegime::MostlyOnes, WeightRegime::FineDyadic, WeightRegime::Nasty, WeightRegime::Tiny, WeightRegime::NearEqual, WeightRegime::MixedScale],
            kinds: AlgoGen::all_kinds(),
            shapes: None,
            lifecycle_pct: 30,
            keyings: 1,
            boundary_per_mille: 0,
            huge_one_in: 1500,
            hub_one_in: 0,
        }
        .gen("C04", seed, idx)
        .giant(seed, idx)
    }
    fn run_env(&self, case: &Case, env: &Env, cx: &mut Ctx) {
        let b = match algo::build(case, cx) {
            Some(b) => b,
            None => return,
        };
        let (g, snap) = (&b.g, &b.snap);
        let n = snap.n();
        if n > 5000 {
            giant_check(case, env, g, snap, cx);
            return;
        }
        let budget = rt::budget(n, snap.edges.len());
        let mut rng = Rng::new(case.seed, "c04.queries");
        if case.seed % 4 == 0 {
            algo::poison_prelude(env, cx);
        }
        let mut modes = vec![false];
        if !snap.edges.is_empty() && snap.weighted() && algo::non_negative(snap) {
            modes.push(true);
        }
        let mut tie = false;
        for weighted in modes {
            let orc = DistOracle::new(snap, !weighted);
            let positive = !weighted || algo::all_positive(snap);
            let smax = if positive { algo::sigma_max(&orc) } else { f64::INFINITY };
            if positive && smax > 1.0 {
                tie = true;
                cx.count("probe.pair_with_several_shortest_paths");
            }
            if smax >= 3.0 && positive {
                cx.count("probe.tie_with_3_or_more_paths");
            }
            // all-paths queries need weights whose sums floats can tell apart: when a light edge is absorbed by a long
            // path it acts as a zero-weight edge, and zero-length cycles have no finite set of shortest paths
            let all_paths_ok = (if positive { smax <= PATH_CAP } else { n <= 8 }) && (!weighted || algo::comparable_scale(snap));
            let sets = positive && orc.exact;
            let fo = if weighted && positive && !orc.exact && algo::comparable_scale(snap) {
                cx.count("probe.inexactly_summable_weights");
                Some(DistOracle::new_float(snap))
            } else {
                None
            };
            let mode = if weighted { "weighted" } else { "hop" };
            macro_rules! viol {
                ($f:expr, $r:expr) => {
                    if let Err((sig, detail)) = $r {
                        cx.fail(&format!("C04.{}", $f), &format!("{}: {}", $f, sig), format!("{} ({}, pool {}): {} [{}]", $f, mode, env.pool, detail, case.specs.short()));
                        return;
                    }
                };
            }
            let sources: Vec<usize> = if n <= 10 { (0..n).collect() } else { (0..5).map(|_| rng.below(n)).collect() };
            for &s in &sources {
                for first_only in [false, true] {
                    for with_paths in [true, false] {
                        if with_paths && !first_only && !all_paths_ok {
                            continue;
                        }
                        let name = snap.names[s].clone();
                        let r = rt::call("dijkstra::single_source", budget, || dijkstra::single_source(g, weighted, name.clone(), None, None, first_only, with_paths));
                        let got = match r {
                            Ok(Ok(m)) => algo::sp_conv(m),
                            Ok(Err(e)) => {
                                cx.fail("C04.single_source", "single_source returned Err", format!("single_source({:?}, {}) failed: {:?} {}", name, mode, e.kind, e.message));
                                return;
                            }
                            Err(p) => {
                                cx.fail("C04.panic", "single_source panicked", format!("single_source({:?}, {}, first_only={}, with_paths={}) panicked: {}", name, mode, first_only, with_paths, p.0));
                                return;
                            }
                        };
                        cx.count("single_source_calls");
                        viol!("single_source", algo::verify_single_source(snap, &orc, s, &got, &SpCheck { first_only, with_paths, sets, fo: fo.as_ref() }, PATH_CAP as usize));
                        // explicit enumeration for small graphs
                        if sets && with_paths && !first_only && n <= 9 {
                            for t in 0..n {
                                if let (Some(all), Some(gp)) = (orc.all_paths(s, t, 5000), got.get(&snap.names[t])) {
                                    let exp: BTreeSet<Vec<String>> = all.into_iter().map(|p| p.into_iter().map(|i| snap.names[i].clone()).collect()).collect();
                                    let have: BTreeSet<Vec<String>> = gp.1.iter().cloned().collect();
                                    if exp != have {
                                        cx.fail("C04.single_source", "single_source: path set != all shortest paths", format!("{:?} -> {:?} ({}): returned {:?}, all shortest paths are {:?} [{}]", name, snap.names[t], mode, have, exp, case.specs.short()));
                                        return;
                                    }
                                    cx.count("enumerated_path_sets");
                                }
                            }
                        }
                    }
                }
            }
            // searches restricted by a target (every source x a few targets x first_only x with_paths)
            if n > 0 {
                let targets: Vec<usize> = if n <= 6 { (0..n).collect() } else { (0..3).map(|_| rng.below(n)).collect() };
                for &s in &sources {
                    for &t in &targets {
                        for first_only in [false, true] {
                            for with_paths in [true, false] {
                                if with_paths && !first_only && !all_paths_ok {
                                    continue;
                                }
                                let (sn, tn) = (snap.names[s].clone(), snap.names[t].clone());
                                let r = rt::call("dijkstra::single_source(target)", budget, || dijkstra::single_source(g, weighted, sn.clone(), Some(tn.clone()), None, first_only, with_paths));
                                let got = match r {
                                    Ok(Ok(m)) => algo::sp_conv(m),
                                    Ok(Err(e)) => {
                                        cx.fail("C04.single_source", "single_source(target) returned Err", format!("single_source({:?}, target {:?}, {}) failed: {:?}", sn, tn, mode, e.kind));
                                        return;
                                    }
                                    Err(p) => {
                                        cx.fail("C04.panic", "single_source(target) panicked", format!("single_source({:?}, target {:?}, {}) panicked: {}", sn, tn, mode, p.0));
                                        return;
                                    }
                                };
                                cx.count("single_source_with_target_calls");
                                viol!("single_source", algo::verify_with_target(snap, &orc, s, t, &got, &SpCheck { first_only, with_paths, sets, fo: fo.as_ref() }, PATH_CAP as usize));
                            }
                        }
                    }
                }
                // the same through all_pairs / multi_source with a target
                let t = rng.below(n);
                let tn = snap.names[t].clone();
                for first_only in [true, false] {
                    let with_paths = first_only || all_paths_ok;
                    match rt::call("dijkstra::all_pairs(target)", budget, || pool::scoped(env.pool, || dijkstra::all_pairs(g, weighted, Some(tn.clone()), None, first_only, with_paths))) {
                        Ok(Ok(m)) => {
                            let m = algo::sp2_conv(m);
                            for s in 0..n {
                                match m.get(&snap.names[s]) {
                                    Some(e) => viol!("all_pairs", algo::verify_with_target(snap, &orc, s, t, e, &SpCheck { first_only, with_paths, sets, fo: fo.as_ref() }, PATH_CAP as usize)),
                                    None => {
                                        cx.fail("C04.all_pairs", "all_pairs(target): source missing", format!("all_pairs(target {:?}) has no entry for source {:?}", tn, snap.names[s]));
                                        return;
                                    }
                                }
                            }
                            cx.count("all_pairs_with_target_calls");
                        }
                        Ok(Err(e)) => {
                            cx.fail("C04.all_pairs", "all_pairs(target) returned Err", format!("all_pairs(target {:?}) failed: {:?}", tn, e.kind));
                            return;
                        }
                        Err(p) => {
                            cx.fail("C04.panic", "all_pairs(target) panicked", format!("all_pairs(target {:?}) panicked: {}", tn, p.0));
                            return;
                        }
                    }
                }
            }
            // multi_source and all_pairs (parallel above 20 nodes when the pool has > 1 worker)
            if n > 0 {
                let k = rng.range(1, n.min(8));
                let srcs: Vec<usize> = (0..k).map(|_| rng.below(n)).collect();
                let names: Vec<String> = srcs.iter().map(|i| snap.names[*i].clone()).collect();
                let with_paths = all_paths_ok;
                let r = rt::call("dijkstra::multi_source", budget, || pool::scoped(env.pool, || dijkstra::multi_source(g, weighted, names.clone(), None, None, false, with_paths)));
                match r {
                    Ok(Ok(m)) => {
                        let m = algo::sp2_conv(m);
                        let keys: BTreeSet<&String> = m.keys().collect();
                        let exp: BTreeSet<&String> = names.iter().collect();
                        if keys != exp {
                            cx.fail("C04.multi_source", "multi_source: sources reported", format!("multi_source({:?}) reported sources {:?}", names, keys));
                            return;
                        }
                        for (i, s) in srcs.iter().enumerate() {
                            viol!("multi_source", algo::verify_single_source(snap, &orc, *s, &m[&names[i]], &SpCheck { first_only: false, with_paths, sets, fo: fo.as_ref() }, PATH_CAP as usize));
                        }
                        cx.count("multi_source_calls");
                    }
                    Ok(Err(e)) => {
                        cx.fail("C04.multi_source", "multi_source returned Err", format!("multi_source({:?}, {}) failed: {:?}", names, mode, e.kind));
                        return;
                    }
                    Err(p) => {
                        cx.fail("C04.panic", "multi_source panicked", format!("multi_source({:?}, {}) panicked: {}", names, mode, p.0));
                        return;
                    }
                }
            }
            for (first_only, with_paths) in [(false, all_paths_ok && (n <= 30 || smax <= 50.0)), (true, true), (false, false)] {
                let r = rt::call("dijkstra::all_pairs", budget, || pool::scoped(env.pool, || dijkstra::all_pairs(g, weighted, None, None, first_only, with_paths)));
                match r {
                    Ok(Ok(m)) => {
                        let m = algo::sp2_conv(m);
                        if m.len() != n || !snap.names.iter().all(|x| m.contains_key(x)) {
                            cx.fail("C04.all_pairs", "all_pairs: sources reported", format!("all_pairs reported {} sources for {} nodes", m.len(), n));
                            return;
                        }
                        for s in 0..n {
                            viol!("all_pairs", algo::verify_single_source(snap, &orc, s, &m[&snap.names[s]], &SpCheck { first_only, with_paths, sets, fo: fo.as_ref() }, PATH_CAP as usize));
                        }
                        cx.count("all_pairs_calls");
                        if n > 20 && env.pool > 1 {
                            cx.count("probe.parallel_path_taken");
                        }
                    }
                    Ok(Err(e)) => {
                        cx.fail("C04.all_pairs", "all_pairs returned Err", format!("all_pairs({}) failed: {:?}", mode, e.kind));
                        return;
                    }
                    Err(p) => {
                        cx.fail("C04.panic", "all_pairs panicked", format!("all_pairs({}, first_only={}, with_paths={}) panicked: {}", mode, first_only, with_paths, p.0));
                        return;
                    }
                }
            }
        }
        if cx.viol.is_empty() && n >= 2 && n <= 60 && Rng::new(case.seed, "config.wrap").chance(1, 1500) {
            // counters that wrap: the same search again after exactly 2^8, 2^15, 2^16 (+-1) searches on this thread
            // the filler searches start at an isolated node added to a copy of the same graph (same size, so no
            // per-thread table is resized in between; they touch one entry)
            let mut ops = case.ops.clone();
            ops.push(Op::AddNode(("~isolated".to_string(), None)));
            if let Ok(pg) = crate::core::real::build(case.specs, &ops) {
                let weighted = !snap.edges.is_empty() && snap.weighted() && algo::all_positive(snap) && algo::comparable_scale(snap);
                let general = case.seed % 4 != 1; // the full algorithm (paths) or the distances-only one
                let (a, b) = (snap.names[0].clone(), snap.names[n / 2].clone());
                algo::wrap_probe(
                    cx,
                    "C04",
                    "dijkstra::single_source",
                    1,
                    |k| {
                        let src = if k % 2 == 0 { a.clone() } else { b.clone() };
                        match rt::call("dijkstra::single_source", budget, || dijkstra::single_source(&pg, weighted, src.clone(), None, None, general, general)) {
                            Ok(Ok(m)) => Some(algo::sp_bits(&algo::sp_conv(m))),
                            _ => None,
                        }
                    },
                    || {
                        let _ = rt::call("dijkstra::single_source(filler)", 1_000_000, || dijkstra::single_source(&pg, weighted, "~isolated".to_string(), None, None, general, general).is_ok());
                    },
                );
            }
        }
        let unreachable = {
            let o = DistOracle::new(snap, true);
            (0..n).any(|s| (0..n).any(|t| o.d[s][t].is_infinite()))
        };
        if unreachable {
            cx.count("probe.unreachable_pair");
        }
        if tie || unreachable || snap.multi {
            cx.nt.push(super::lifecycle::ops_hash(&case.ops));
        }
        cx.states.push(super::lifecycle::ops_hash(&case.ops));
    }
    fn rule(&self) -> String {
        "graphs of all 8 kinds: shapes (G(n,p), paths, cycles, stars, grids, cliques+bridges, layered DAGs with many equal-length paths, unions, trees, bipartite, nested SCCs) with sprinkled self-loops / parallel / reciprocal edges, n <= 10 (75%) or 21-60 (25%), or graphs produced by lifecycle histories; weights hop / dyadic / small int / dyadic with zeros / decimal. single_source from every (or 5 sampled) source x first_only x with_paths, multi_source, all_pairs under a simulated pool of 1-16 workers; oracle: Floyd-Warshall distances, reachable set, path validity, path count = sigma(s,t) and (n <= 9) path set = explicit enumeration. distinct_nontrivial = distinct graphs with a pair having several shortest paths, an unreachable pair, or parallel edges; one case in 1500 is a dense graph (1-3 blocks, 60-300 nodes) with 2 100 - 12 500 stored edges under a pool of 2-16 workers (strategy thresholds); weights also 1 + k 2^-j (j = 35..41: exactly summable, differing in the 11th-13th digit); under inexactly summable positive weights the number of paths per pair must equal the number of shortest paths under the accumulated-float reading or under the 1e-9 reading; in a third of the cases a battery of valid unjudged calls runs first on a sibling graph (same names and edges, other node order), in a fifth the graph is queried on the same object before its last one to three operations are applied (DESIGN.md 0.2); one case in 1 500 has 47 000 - 70 000 nodes (a source adjacent to every other node, entries improved by 1/256, a chain, two diamonds, isolated nodes; searches with every option combination against a heap-based single-source oracle); one case in 1 500 repeats a search after exactly 255, 256, 32 767, 32 768, 65 535 and 65 536 further searches from an isolated node of the same graph (counter wrap-around); unit weights with a few exceptions".into()
    }
    fn assumptions(&self) -> Vec<String> {
        vec!["path sets are compared exactly under exactly summable strictly positive weights or hop counts; under inexactly summable positive weights: distances at 1e-9 relative, path validity, and the path count per pair must fit the accumulated-float reading or the 1e-9 reading".into(), "all-paths queries are skipped when some pair has more than 3000 shortest paths".into()]
    }
}
