use crate::core::case::*;
use crate::core::model::Model;
use crate::core::real::G;
use crate::runner::Ctx;
pub fn check_traversal(_i: usize, _op: &Op, _g: &G, _m: &Model, _case: &Case, _cx: &mut Ctx) {}
