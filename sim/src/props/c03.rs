//! C03 — algorithms traverse exactly the stored edges, with their current weights.
use super::lifecycle::{self, Arms};
use super::{Prop, Tier};
use crate::core::case::*;
use crate::core::model::Model;
use crate::core::real::{self, Snap, G};
use crate::core::rng::Rng;
use crate::core::rt;
use crate::gen;
use crate::oracle::dist::{DistOracle, INF};
use crate::oracle::{close, close_rel};
use crate::runner::{Ctx, EnvResult};
use graphrs::algorithms::centrality::{betweenness, closeness};
use graphrs::algorithms::shortest_path::dijkstra;
use std::collections::BTreeSet;

pub struct C03Prop;
pub static C03: C03Prop = C03Prop;

fn policy(m: &Model) -> String {
    if m.specs.multi {
        "multi".into()
    } else {
        format!("{:?}", m.specs.dedupe)
    }
}

/// describe the situation of the last op for the signature: which duplicate policy met which weight relation
fn situation(op: &Op, m: &Model) -> String {
    if let Op::AddEdge(e) = op {
        return format!("add_edge on {} graph, policy {}, new weight {}", if m.specs.directed { "directed" } else { "undirected" }, policy(m), if e.weight().is_nan() { "nan" } else { "real" });
    }
    format!("{} policy {}", op.name(), policy(m))
}

/// graphs of more than 400 nodes (hubs with more than a thousand neighbours): no all-pairs table; the nodes of
/// highest degree and a seeded sample of others are the sources, the white-box comparison covers every list
fn check_traversal_large(step: usize, op: &Op, g: &G, snap: &Snap, m: &Model, cx: &mut Ctx) {
    let n = snap.n();
    let b = rt::budget(n, snap.edges.len());
    let specs = m.specs;
    let hop_adj = snap.adj_min(true);
    let mut by_degree: Vec<usize> = (0..n).collect();
    by_degree.sort_by_key(|u| std::cmp::Reverse(hop_adj[*u].len()));
    let mut rng = Rng::new(step as u64 ^ snap.edges.len() as u64, "c03.large");
    let mut sources: Vec<usize> = by_degree.iter().take(3).copied().collect();
    for _ in 0..9 {
        sources.push(rng.below(n));
    }
    sources.dedup();
    for &u in &sources {
        let name = snap.names[u].clone();
        match rt::call("dijkstra::single_source(hop,cutoff=1)", b, || dijkstra::single_source(g, false, name.clone(), None, Some(1.0), false, false)) {
            Err(p) => {
                cx.fail("C03.panic", "single_source panicked", format!("after step {} single_source({:?}, hop, cutoff 1) panicked: {} [{}]", step, name, p.0, specs.short()));
                return;
            }
            Ok(Err(e)) => {
                cx.fail("C03.neighbours", "single_source failed", format!("after step {} single_source({:?}) failed: {:?}", step, name, e.kind));
                return;
            }
            Ok(Ok(map)) => {
                let got: BTreeSet<String> = map.iter().filter(|(_, v)| v.distance == 1.0).map(|(k, _)| k.clone()).collect();
                let exp: BTreeSet<String> = hop_adj[u].iter().filter(|x| x.0 != u).map(|x| snap.names[x.0].clone()).collect();
                if got != exp {
                    let diff: Vec<&String> = got.symmetric_difference(&exp).take(10).collect();
                    cx.fail("C03.neighbours", &format!("traversal neighbours: {}", situation(op, m)), format!("after step {} ({}): the nodes one hop from {:?} ({} of them) differ from the stored edges ({}), e.g. {:?} [{}]", step, op.name(), name, got.len(), exp.len(), diff, specs.short()));
                    return;
                }
            }
        }
    }
    cx.count("neighbour_checks");
    cx.count("probe.large_graph_sampled_sources");
    #[cfg(graphrs_verif)]
    {
        if let Ok(s) = rt::call("verif_snapshot", real::OP_BUDGET, || g.verif_snapshot()) {
            whitebox(step, op, &s, snap, m, cx);
            if !cx.viol.is_empty() {
                return;
            }
        }
    }
    if snap.edges.is_empty() || !snap.weighted() || snap.edges.iter().any(|e| e.2 < 0.0) {
        return;
    }
    let wadj = snap.adj_min(false);
    for &u in &sources {
        let name = snap.names[u].clone();
        match rt::call("dijkstra::single_source(weighted)", b, || dijkstra::single_source(g, true, name.clone(), None, None, false, false)) {
            Err(p) => {
                cx.fail("C03.panic", "single_source panicked", format!("after step {} weighted single_source({:?}) panicked: {}", step, name, p.0));
                return;
            }
            Ok(Err(e)) => {
                cx.fail("C03.weighted_distance", "single_source failed", format!("after step {} weighted single_source({:?}) failed: {:?}", step, name, e.kind));
                return;
            }
            Ok(Ok(map)) => {
                let exp = crate::oracle::dist::sssp(&wadj, u);
                for v in 0..n {
                    let got = map.get(&snap.names[v]).map(|x| x.distance).unwrap_or(INF);
                    if !close_rel(got, exp[v]) {
                        cx.fail("C03.weighted_distance", &format!("stale traversal weight: {}", situation(op, m)), format!("after step {} ({}): weighted distance {:?} -> {:?} is {} but the edges in get_all_edges() give {} [{}]", step, op.name(), name, snap.names[v], got, exp[v], specs.short()));
                        return;
                    }
                }
            }
        }
    }
    cx.count("weighted_distance_checks");
}

pub fn check_traversal(step: usize, op: &Op, g: &G, m: &Model, case: &Case, cx: &mut Ctx) {
    let _ = case;
    // the reference is what get_all_nodes / get_all_edges of the REAL graph show (so a C01 defect is not misreported here)
    let snap = match Snap::of(g) {
        Ok(s) => s,
        Err(p) => {
            cx.fail("C03.panic", "observe", format!("observe panicked: {}", p.0));
            return;
        }
    };
    let n = snap.n();
    let b = rt::budget(n, snap.edges.len());
    let specs = m.specs;
    if n > 400 {
        check_traversal_large(step, op, g, &snap, m, cx);
        return;
    }
    let hop = DistOracle::new(&snap, true);
    // (a) traversal neighbours, black box: nodes at hop distance exactly 1
    for u in 0..n {
        let name = snap.names[u].clone();
        let r = rt::call("dijkstra::single_source(hop,cutoff=1)", b, || dijkstra::single_source(g, false, name.clone(), None, Some(1.0), false, false));
        match r {
            Err(p) => {
                cx.fail("C03.panic", "single_source panicked", format!("after step {} single_source({:?}, hop, cutoff 1) panicked: {} [{}]", step, name, p.0, specs.short()));
                return;
            }
            Ok(Err(e)) => {
                cx.fail("C03.neighbours", "single_source failed", format!("after step {} single_source({:?}) failed: {:?}", step, name, e.kind));
                return;
            }
            Ok(Ok(map)) => {
                let got: BTreeSet<String> = map.iter().filter(|(_, v)| v.distance == 1.0).map(|(k, _)| k.clone()).collect();
                let exp: BTreeSet<String> = hop.adj[u].iter().map(|x| snap.names[x.0].clone()).collect();
                if got != exp {
                    cx.fail("C03.neighbours", &format!("traversal neighbours: {}", situation(op, m)), format!("after step {} ({}): nodes one hop from {:?} are {:?} but the stored edges give {:?} [{}]", step, op.name(), name, got, exp, specs.short()));
                    return;
                }
            }
        }
    }
    cx.count("neighbour_checks");
    // white box: the traversal lists themselves
    #[cfg(graphrs_verif)]
    {
        if let Ok(s) = rt::call("verif_snapshot", real::OP_BUDGET, || g.verif_snapshot()) {
            whitebox(step, op, &s, &snap, m, cx);
            if !cx.viol.is_empty() {
                return;
            }
        }
    }
    // (b), (c): weighted results equal those computed from get_all_edges() alone
    if snap.edges.is_empty() || !snap.weighted() || snap.edges.iter().any(|e| e.2 < 0.0) {
        return;
    }
    let wo = DistOracle::new(&snap, false);
    for u in 0..n {
        let name = snap.names[u].clone();
        let r = rt::call("dijkstra::single_source(weighted)", b, || dijkstra::single_source(g, true, name.clone(), None, None, false, false));
        match r {
            Err(p) => {
                cx.fail("C03.panic", "single_source panicked", format!("after step {} weighted single_source({:?}) panicked: {}", step, name, p.0));
                return;
            }
            Ok(Err(e)) => {
                cx.fail("C03.weighted_distance", "single_source failed", format!("after step {} weighted single_source({:?}) failed: {:?}", step, name, e.kind));
                return;
            }
            Ok(Ok(map)) => {
                for v in 0..n {
                    let got = map.get(&snap.names[v]).map(|x| x.distance).unwrap_or(INF);
                    let exp = wo.d[u][v];
                    if !close_rel(got, exp) {
                        cx.fail(
                            "C03.weighted_distance",
                            &format!("stale traversal weight: {}", situation(op, m)),
                            format!("after step {} ({}): weighted distance {:?} -> {:?} is {} but the edges in get_all_edges() give {} [{}]", step, op.to_json().to_string(), name, snap.names[v], got, exp, specs.short()),
                        );
                        return;
                    }
                }
            }
        }
    }
    cx.count("weighted_distance_checks");
    if snap.edges.iter().all(|e| e.2 > 0.0) {
        // closeness at 1e-9 always; betweenness only when ties are exact
        for wf in [false, true] {
            match rt::call("closeness_centrality(weighted)", b, || closeness::closeness_centrality(g, true, wf)) {
                Ok(Ok(map)) => {
                    let exp = wo.closeness(wf);
                    for v in 0..n {
                        let got = map.get(&snap.names[v]).copied().unwrap_or(f64::NAN);
                        if !close_rel(got, exp[v]) {
                            cx.fail("C03.weighted_closeness", &format!("closeness from stale weights: {}", situation(op, m)), format!("after step {}: weighted closeness({:?}, wf={}) = {} but the stored edges give {} [{}]", step, snap.names[v], wf, got, exp[v], specs.short()));
                            return;
                        }
                    }
                }
                Ok(Err(e)) => {
                    cx.fail("C03.weighted_closeness", "closeness failed", format!("closeness failed: {:?}", e.kind));
                    return;
                }
                Err(p) => {
                    cx.fail("C03.panic", "closeness panicked", format!("after step {} weighted closeness panicked: {} [{}]", step, p.0, specs.short()));
                    return;
                }
            }
        }
        if wo.exact {
            match rt::call("betweenness_centrality(weighted)", b, || betweenness::betweenness_centrality(g, true, false)) {
                Ok(Ok(map)) => {
                    let exp = wo.betweenness(false, snap.directed);
                    for v in 0..n {
                        let got = map.get(&snap.names[v]).copied().unwrap_or(f64::NAN);
                        if !close(got, exp[v]) {
                            cx.fail("C03.weighted_betweenness", &format!("betweenness from stale weights: {}", situation(op, m)), format!("after step {}: weighted betweenness({:?}) = {} but the stored edges give {} [{}]", step, snap.names[v], got, exp[v], specs.short()));
                            return;
                        }
                    }
                }
                Ok(Err(e)) => {
                    cx.fail("C03.weighted_betweenness", "betweenness failed", format!("betweenness failed: {:?}", e.kind));
                    return;
                }
                Err(p) => {
                    cx.fail("C03.panic", "betweenness panicked", format!("after step {} weighted betweenness panicked: {} [{}]", step, p.0, specs.short()));
                    return;
                }
            }
            cx.count("weighted_centrality_checks");
        }
    }
}

#[cfg(graphrs_verif)]
fn whitebox(step: usize, op: &Op, s: &graphrs::VerifSnapshot<String>, snap: &Snap, m: &Model, cx: &mut Ctx) {
    let n = snap.n();
    if s.successors_vec.len() != n || s.predecessors_vec.len() != n {
        cx.fail("C03.traversal_index", "row count", format!("successors_vec / predecessors_vec have {} / {} rows for {} nodes", s.successors_vec.len(), s.predecessors_vec.len(), n));
        return;
    }
    // expected: (v, min weight of stored u->v edges); NaN weights: NaN
    let expect = |rev: bool| -> Vec<Vec<(usize, u64)>> {
        let mut a: Vec<Vec<(usize, f64)>> = vec![vec![]; n];
        let mut put = |u: usize, v: usize, w: f64| match a[u].iter_mut().find(|x| x.0 == v) {
            Some(x) => {
                if w < x.1 || (x.1.is_nan() && !w.is_nan()) {
                    x.1 = w
                }
            }
            None => a[u].push((v, w)),
        };
        for &(u, v, w) in &snap.edges {
            if rev {
                put(v, u, w);
            } else {
                put(u, v, w);
                if !snap.directed && u != v {
                    put(v, u, w);
                }
            }
        }
        a.into_iter()
            .map(|l| {
                let mut l: Vec<(usize, u64)> = l.into_iter().map(|(v, w)| (v, wbits(w))).collect();
                l.sort();
                l
            })
            .collect()
    };
    // weights are compared only on uniformly weighted or uniformly unweighted graphs (C03's quantifier)
    let uniform = snap.edges.iter().all(|e| e.2.is_nan()) || snap.edges.iter().all(|e| !e.2.is_nan());
    let check = |what: &str, got: &Vec<Vec<(usize, f64)>>, exp: &Vec<Vec<(usize, u64)>>, cx: &mut Ctx| {
        for u in 0..n {
            // per neighbour: the minimum listed weight; a neighbour may be listed twice only if it is the
            // node itself on an undirected graph (a self-loop is pushed from both sides and never traversed)
            let mut g: Vec<(usize, u64)> = vec![];
            let mut dup_ok = true;
            for x in &got[u] {
                match g.iter_mut().find(|y| y.0 == x.0) {
                    Some(y) => {
                        if snap.directed || x.0 != u {
                            dup_ok = false;
                        }
                        if x.1 < f64::from_bits(y.1) {
                            y.1 = wbits(x.1);
                        }
                    }
                    None => g.push((x.0, wbits(x.1))),
                }
            }
            g.sort();
            let same_nbrs = g.iter().map(|x| x.0).collect::<Vec<_>>() == exp[u].iter().map(|x| x.0).collect::<Vec<_>>();
            let ok = dup_ok && same_nbrs && (!uniform || g == exp[u]);
            if !ok {
                let stale = same_nbrs && dup_ok;
                let sig = if stale { format!("{} holds a stale weight: {}", what, situation(op, m)) } else { format!("{} neighbour set: {}", what, situation(op, m)) };
                let show = |l: &Vec<(usize, u64)>| l.iter().map(|x| format!("{}:{}", snap.names[x.0], f64::from_bits(x.1))).collect::<Vec<_>>();
                cx.fail(
                    "C03.traversal_index",
                    &sig,
                    format!("after step {} ({}): {}[{:?}] = {:?} (raw {:?}) but the stored edges give (neighbour: min weight) {:?} [{}]", step, op.to_json().to_string(), what, snap.names[u], show(&g), got[u], show(&exp[u]), m.specs.short()),
                );
                return;
            }
        }
    };
    check("successors_vec", &s.successors_vec, &expect(false), cx);
    if snap.directed {
        check("predecessors_vec", &s.predecessors_vec, &expect(true), cx);
    } else if s.predecessors_vec.iter().any(|l| !l.is_empty()) {
        // undirected: unused by the algorithms; accepted if empty or a mirror of successors_vec
        check("predecessors_vec", &s.predecessors_vec, &expect(false), cx);
    }
    cx.count("whitebox_checks");
}

impl Prop for C03Prop {
    fn id(&self) -> &'static str {
        "C03"
    }
    fn runs(&self, tier: Tier) -> u64 {
        match tier {
            Tier::Quick => 80_000,
            Tier::Thorough => 1_500_000,
        }
    }
    fn gen(&self, seed: u64, idx: u64, _tier: Tier) -> Case {
        let mut rng = Rng::new(seed, "config");
        let specs = Specs::from_index(idx as usize % 96);
        let mut case = Case::new("C03", seed, specs);
        {
            let mut hr = Rng::new(seed, "config.huge");
            if hr.chance(1, 2500) {
                // a graph of thousands of edges (strategy thresholds), then a short tail
                let regime = *hr.pick(&[gen::WeightRegime::AllNan, gen::WeightRegime::Dyadic, gen::WeightRegime::SmallInt, gen::WeightRegime::Nasty]);
                let mut wr = Rng::new(seed, "workload.huge");
                case.ops = gen::gen_huge_history_v(&mut wr, specs, regime, false, &[0, 2, 2, 3]);
                case.params.put("source", crate::core::json::J::s("history loading thousands of edges"));
                case.envs = vec![Env { keying: if hr.chance(1, 2) { 0 } else { seed | 1 }, pool: if hr.chance(1, 8) { 1 } else { 2 + hr.below(15) }, sched: crate::core::rng::mix(seed, 78) }];
                return case;
            }
        }
        // uniformly weighted or uniformly unweighted, never mixed (as the property restricts)
        let regime = *rng.pick(&[gen::WeightRegime::AllNan, gen::WeightRegime::Dyadic, gen::WeightRegime::Dyadic, gen::WeightRegime::SmallInt, gen::WeightRegime::Nasty, gen::WeightRegime::Tiny, gen::WeightRegime::NearEqual, gen::WeightRegime::MostlyOnes]);
        let o = gen::HistOpts { specs, max_ops: 20, regime, derived: false, restart: rng.chance(1, 2), names_min: 3, names_max: 6, dup_bias: 45, big: rng.chance(1, 200) };
        let mut wr = Rng::new(seed, "workload");
        case.ops = gen::gen_history(&mut wr, &o);
        if regime != gen::WeightRegime::AllNan {
            // tuple operations add unweighted edges: keep the history uniformly weighted
            for op in case.ops.iter_mut() {
                match op {
                    Op::AddEdgeTuple(u, v) => *op = Op::AddEdge(E { u: u.clone(), v: v.clone(), w: wbits(regime.draw(&mut rng)), attr: None }),
                    Op::AddEdgeTuples(ps) => *op = Op::AddEdges(ps.iter().map(|(u, v)| E { u: u.clone(), v: v.clone(), w: wbits(regime.draw(&mut rng)), attr: None }).collect()),
                    _ => {}
                }
            }
        }
        let k = gen::keyings(seed, 2);
        case.envs = vec![Env { keying: k[(idx % 2) as usize], pool: gen::pool_size(seed, 0), sched: crate::core::rng::mix(seed, 77) }];
        case
    }
    fn run_env(&self, case: &Case, _env: &Env, cx: &mut Ctx) {
        let arms = Arms { c03: true, ..Default::default() };
        let dup = cx.counters.clone();
        let _ = dup;
        if let Some((_g, m, _)) = lifecycle::drive(case, cx, &arms) {
            // non-trivial: some pair received a second edge (ignored, replaced or parallel)
            let mut second = false;
            let mut t = Model::new(case.specs);
            for op in &case.ops {
                if let Op::AddEdge(e) = op {
                    if t.edges.iter().any(|x| t.joins(x, &e.u, &e.v)) {
                        second = true;
                    }
                }
                t.apply(op);
            }
            if second && !m.edges.is_empty() {
                cx.nt.push(crate::core::rng::mix(case.specs.index() as u64, lifecycle::ops_hash(&case.ops)));
                cx.count(&format!("second_edge_histories.{}", policy(&m)));
            }
        }
    }
    fn cross(&self, _case: &Case, _results: &[EnvResult], _cx: &mut Ctx) {}
    fn rule(&self) -> String {
        "lifecycle histories (<= 20 ops) biased to second edges on existing pairs (smaller / equal / larger weight, same / opposite orientation) under KeepFirst / KeepLast / multi-edge, uniformly weighted or uniformly unweighted, all 96 specs; after EVERY op: hop-1 sets from single_source vs stored edges, weighted single_source distances, weighted closeness and betweenness vs the definitions evaluated on get_all_edges() of the real graph, and (hook) successors_vec / predecessors_vec vs min stored weight per pair. distinct_nontrivial = distinct (specs, history) in which some pair received a second edge and edges remain; one case in 2500 loads 2 100 - 12 500 edges (one to three batches or the constructor, same edge values re-submitted on multi-edge graphs) into 45-180 nodes and continues with a short tail (strategy thresholds); the large histories come in variants: dense (45-180 nodes), a hub with 1 100 - 1 600 or 4 100 - 4 500 neighbours whose pairs receive second (lighter / heavier / parallel) edges in a later call; above 400 nodes the sources are the three nodes of highest degree and nine seeded others, the white-box comparison still covers every traversal list; in half of them a load of 260-420 edges into ANOTHER graph is rejected part-way on the same thread first (fault, then recovery, at scale)".into()
    }
    fn assumptions(&self) -> Vec<String> {
        vec!["weighted betweenness is compared only when all weights are dyadic (ties exact); distances and closeness at 1e-9".into(), "non-negative weights; closeness/betweenness only with strictly positive weights".into()]
    }
}
