//! One module per property. Every check is the same engine (runner + envs + step clock) with a
//! property-specific workload and only that property's oracles reporting.
use crate::core::case::*;
use crate::core::json::J;
use crate::runner::{Ctx, EnvResult};

pub mod lifecycle;
pub mod c01;
pub mod c02;
pub mod c03;
pub mod c09;
pub mod c15;
pub mod algo;
pub mod c04;
pub mod c05;
pub mod c06;
pub mod c07;
pub mod c08;
pub mod c10;
pub mod c11;
pub mod c12;
pub mod c13;
pub mod c14;
pub mod c17;
pub mod c18;
pub mod c19;
pub mod c20;

#[derive(Clone, Copy, Debug, PartialEq, Eq)]
pub enum Tier {
    Quick,
    Thorough,
}
impl Tier {
    pub fn name(&self) -> &'static str {
        match self {
            Tier::Quick => "quick",
            Tier::Thorough => "thorough",
        }
    }
}

pub trait Prop: Sync + Send {
    fn id(&self) -> &'static str;
    fn level(&self) -> &'static str {
        "exploration"
    }
    /// number of cases for a tier
    fn runs(&self, tier: Tier) -> u64;
    /// generate case number `idx` of the sample (a pure function of `seed`, `idx`, `tier`)
    fn gen(&self, seed: u64, idx: u64, tier: Tier) -> Case;
    /// execute the case in one environment (already on a fresh, keyed thread with the pool configured)
    fn run_env(&self, case: &Case, env: &Env, cx: &mut Ctx);
    /// oracle across environments
    fn cross(&self, _case: &Case, _results: &[EnvResult], _cx: &mut Ctx) {}
    fn hang_sig(&self, case: &Case, label: &str) -> String {
        format!("{} {}", label, if case.specs.directed { "directed" } else { "undirected" })
    }
    /// property-specific shrink candidates (the generic op/env shrinkers are always tried)
    fn shrink(&self, _case: &Case) -> Vec<Case> {
        vec![]
    }
    /// how cases are generated and what counts as distinct and non-trivial
    fn rule(&self) -> String;
    fn assumptions(&self) -> Vec<String> {
        vec![]
    }
    /// extra, property-specific evidence (e.g. static scans)
    fn extra_evidence(&self) -> Option<J> {
        None
    }
}

pub fn all() -> Vec<&'static dyn Prop> {
    vec![&c01::C01, &c02::C02, &c03::C03, &c09::C09, &c15::C15, &c04::C04, &c05::C05, &c06::C06, &c07::C07, &c08::C08, &c10::C10, &c11::C11, &c12::C12, &c13::C13, &c14::C14, &c17::C17, &c18::C18, &c19::C19, &c20::C20]
}

pub fn by_id(id: &str) -> Option<&'static dyn Prop> {
    all().into_iter().find(|p| p.id() == id)
}

/// the per-case seed: one integer decides everything
pub fn case_seed(verif_seed: u64, prop: &str, idx: u64) -> u64 {
    crate::core::rng::mix(crate::core::rng::mix(verif_seed, crate::core::rng::hash_str(prop)), idx)
}
