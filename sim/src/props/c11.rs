//! C11 — clustering, triangle and transitivity values equal their definitions.
use super::algo::{self, AlgoGen};
use super::{Prop, Tier};
use crate::core::case::*;
use crate::core::model::K;
use crate::core::real;
use crate::core::rng::Rng;
use crate::core::rt;
use crate::gen::{self, Shape, WeightRegime};
use crate::oracle::close;
use crate::oracle::cluster::ClusterOracle;
use crate::runner::Ctx;
use graphrs::algorithms::cluster;
use std::collections::{BTreeMap, HashMap};

pub struct C11Prop;
pub static C11: C11Prop = C11Prop;

impl Prop for C11Prop {
    fn id(&self) -> &'static str {
        "C11"
    }
    fn runs(&self, tier: Tier) -> u64 {
        match tier {
            Tier::Quick => 15_000,
            Tier::Thorough => 400_000,
        }
    }
    fn gen(&self, seed: u64, idx: u64, tier: Tier) -> Case {
        // mostly single-edge graphs; one case in eight is a multi-edge graph (must be refused)
        let kinds = if idx % 8 == 7 { vec![(false, true, false), (true, true, true), (false, true, true), (true, true, false)] } else { AlgoGen::single_edge_kinds() };
        let mut case = AlgoGen {
            large_pct: 15,
            n_small: (0, 9),
            n_large: (10, 16),
            regimes: vec![WeightRegime::AllNan, WeightRegime::Dyadic, WeightRegime::Nasty, WeightRegime::MostlyOnes, WeightRegime::SmallInt, WeightRegime::MixedScale, WeightRegime::Tiny, WeightRegime::HugeDyadic, WeightRegime::MinusculeDyadic],
            kinds,
            shapes: Some(vec![Shape::Gnp, Shape::Gnp, Shape::Cliques, Shape::Cliques, Shape::Star, Shape::Grid, Shape::Bipartite, Shape::Cycle, Shape::Tree, Shape::Union]),
            lifecycle_pct: 25,
            keyings: 1,
            boundary_per_mille: 8,
            huge_one_in: 800,
            hub_one_in: 0,
        }
        .gen("C11", seed, idx / 8 * 7 + idx % 8);
        let k = match tier {
            Tier::Quick => 3,
            Tier::Thorough => 5,
        };
        case.envs = gen::envs(seed, k);
        case
    }
    fn run_env(&self, case: &Case, env: &Env, cx: &mut Ctx) {
        let b = match algo::build(case, cx) {
            Some(b) => b,
            None => return,
        };
        let (g, snap) = (&b.g, &b.snap);
        let n = snap.n();
        let budget = rt::budget(n, snap.edges.len());
        let kd = format!("{}{}", if snap.directed { "directed" } else { "undirected" }, if snap.multi { "+multi" } else { "" });
        macro_rules! lib {
            ($label:expr, $e:expr) => {
                match rt::call($label, budget, || $e) {
                    Ok(v) => v,
                    Err(p) => {
                        cx.fail("C11.panic", &format!("{} panicked on {}", $label, kd), format!("{} panicked (keying {}): {} [{}]", $label, env.keying, p.0, case.specs.short()));
                        return;
                    }
                }
            };
        }
        macro_rules! refused {
            ($label:expr, $r:expr) => {
                match &$r {
                    Err(e) if real::kind(&e.kind) == K::WrongMethod => cx.count("err.WrongMethod"),
                    other => {
                        cx.fail("C11.wrong_kind", &format!("{} on a {} graph is not refused", $label, kd), format!("{} on a {} graph must return WrongMethod, got {}", $label, kd, if other.is_ok() { "Ok".to_string() } else { format!("{:?}", other.as_ref().err().map(|e| e.kind.clone())) }));
                        return;
                    }
                }
            };
        }
        let weighted_ok = !snap.edges.is_empty() && snap.weighted() && algo::all_positive(snap);
        if snap.multi {
            // refused for every function that has an error channel
            refused!("clustering", lib!("clustering", cluster::clustering(g, false, None)));
            refused!("average_clustering", lib!("average_clustering", cluster::average_clustering(g, false, None, true)));
            refused!("triangles", lib!("triangles", cluster::triangles(g, None)));
            refused!("transitivity", lib!("transitivity", cluster::transitivity(g)));
            refused!("generalized_degree", lib!("generalized_degree", cluster::generalized_degree(g, None)));
            cx.count("multi_edge_graphs");
            return;
        }
        let orc = ClusterOracle::new(snap);
        let mut rng = Rng::new(case.seed, "c11.subsets");
        // node selections: all nodes, and random non-empty proper subsets (incl. singletons and subsets whose
        // neighbours lie outside the subset)
        let mut selections: Vec<Option<Vec<usize>>> = vec![None];
        if n >= 2 {
            for _ in 0..3 {
                let k = if rng.chance(1, 3) { 1 } else { rng.range(1, n - 1) };
                let mut ids: Vec<usize> = (0..n).collect();
                rng.shuffle(&mut ids);
                ids.truncate(k);
                selections.push(Some(ids));
            }
        }
        // the whole-graph query is not always the first one (a subset query may be the first call after a mutation)
        if selections.len() > 1 {
            let at = rng.below(selections.len());
            selections.swap(0, at);
        }
        let in_range = |label: &str, v: f64, node: &String, cx: &mut Ctx| -> bool {
            if !(v >= 0.0 && v <= 1.0 + 1e-12) {
                cx.fail("C11.range", &format!("{} outside [0,1]", label), format!("{}({:?}) = {} lies outside [0,1]", label, node, v));
                false
            } else {
                true
            }
        };
        let has_loop = snap.edges.iter().any(|e| e.0 == e.1);
        if has_loop {
            cx.count("probe.self_loops_present");
        }
        for sel in &selections {
            let ids: Vec<usize> = sel.clone().unwrap_or_else(|| (0..n).collect());
            let names: Option<Vec<String>> = sel.as_ref().map(|v| v.iter().map(|i| snap.names[*i].clone()).collect());
            let nn = names.as_deref();
            let what = if sel.is_some() { "subset" } else { "all nodes" };
            if sel.is_some() {
                cx.count("subset_queries");
            }
            let mut modes = vec![false];
            if weighted_ok {
                modes.push(true);
            }
            for weighted in modes {
                let r = lib!("clustering", cluster::clustering(g, weighted, nn));
                let got: HashMap<String, f64> = match r {
                    Ok(m) => m,
                    Err(e) => {
                        cx.fail("C11.clustering", "clustering failed", format!("clustering(weighted={}, {}) failed: {:?}", weighted, what, e.kind));
                        return;
                    }
                };
                let keys: std::collections::BTreeSet<&String> = got.keys().collect();
                let expk: std::collections::BTreeSet<&String> = ids.iter().map(|i| &snap.names[*i]).collect();
                if keys != expk {
                    cx.fail("C11.subset_keys", &format!("clustering keys ({})", what), format!("clustering({}) returned entries for {:?}, requested {:?}", what, keys, expk));
                    return;
                }
                let mut exp_vals = vec![];
                for &v in &ids {
                    let x = got[&snap.names[v]];
                    let exps: Vec<f64> = match (snap.directed, weighted) {
                        (false, false) => vec![orc.clustering_undirected(v)],
                        (true, false) => vec![orc.clustering_directed(v)],
                        // either normalisation convention when a self-loop carries the largest weight
                        (false, true) => vec![orc.clustering_undirected_weighted(v, orc.wmax_noloop), orc.clustering_undirected_weighted(v, orc.wmax_all)],
                        (true, true) => vec![orc.clustering_directed_weighted(v, orc.wmax_noloop), orc.clustering_directed_weighted(v, orc.wmax_all)],
                    };
                    if !exps.iter().any(|e| close(x, *e)) {
                        let sig = format!("clustering {} {} ({}){}", if snap.directed { "directed" } else { "undirected" }, if weighted { "weighted" } else { "unweighted" }, what, if has_loop { " self-loops" } else { "" });
                        cx.fail("C11.clustering", &sig, format!("clustering({:?}, weighted={}, {}) = {} but the definition gives {:?} (keying {}) [{}]", snap.names[v], weighted, what, x, exps, env.keying, case.specs.short()));
                        return;
                    }
                    if !in_range("clustering", x, &snap.names[v], cx) {
                        return;
                    }
                    exp_vals.push(x);
                }
                // average over the counted coefficients (of the library's own values, so only the averaging is judged)
                for count_zeros in [true, false] {
                    let r = lib!("average_clustering", cluster::average_clustering(g, weighted, nn, count_zeros));
                    let counted: Vec<f64> = exp_vals.iter().copied().filter(|v| count_zeros || v.abs() > 0.0).collect();
                    match r {
                        Ok(avg) => {
                            if !counted.is_empty() {
                                let e = counted.iter().sum::<f64>() / counted.len() as f64;
                                if !close(avg, e) {
                                    cx.fail("C11.average", "average_clustering", format!("average_clustering(weighted={}, {}, count_zeros={}) = {} but the mean of the counted coefficients is {}", weighted, what, count_zeros, avg, e));
                                    return;
                                }
                            }
                        }
                        Err(e) => {
                            cx.fail("C11.average", "average_clustering failed", format!("average_clustering failed: {:?}", e.kind));
                            return;
                        }
                    }
                }
                cx.count("clustering_checks");
            }
            // the undirected-only functions
            let tri = lib!("triangles", cluster::triangles(g, nn));
            let gd = lib!("generalized_degree", cluster::generalized_degree(g, nn));
            if snap.directed {
                refused!("triangles", tri);
                refused!("generalized_degree", gd);
            } else {
                match (tri, gd) {
                    (Ok(t), Ok(d)) => {
                        if t.len() != ids.len() || d.len() != ids.len() {
                            cx.fail("C11.subset_keys", &format!("triangles / generalized_degree keys ({})", what), format!("triangles / generalized_degree ({}) returned {} / {} entries for {} requested nodes", what, t.len(), d.len(), ids.len()));
                            return;
                        }
                        for &v in &ids {
                            let name = &snap.names[v];
                            if t.get(name) != Some(&orc.triangles(v)) {
                                cx.fail("C11.triangles", &format!("triangles ({})", what), format!("triangles({:?}, {}) = {:?} but {} triangles pass through it", name, what, t.get(name), orc.triangles(v)));
                                return;
                            }
                            let got: Option<BTreeMap<usize, usize>> = d.get(name).map(|m| m.iter().map(|(k, v)| (*k, *v)).collect());
                            if got.as_ref() != Some(&orc.generalized_degree(v)) {
                                cx.fail("C11.generalized_degree", &format!("generalized_degree ({})", what), format!("generalized_degree({:?}, {}) = {:?} but the histogram of per-edge triangle counts is {:?}", name, what, got, orc.generalized_degree(v)));
                                return;
                            }
                        }
                    }
                    (a, b2) => {
                        cx.fail("C11.triangles", "triangles / generalized_degree failed", format!("triangles / generalized_degree failed on an undirected single-edge graph: {:?} / {:?}", a.err().map(|e| e.kind), b2.err().map(|e| e.kind)));
                        return;
                    }
                }
                // square clustering has no error channel: exercised only on the graphs it is specified for
                // (not on dense graphs of more than 6 000 edges: the call and its oracle take minutes there)
                if snap.edges.len() > 6000 {
                    cx.count("skipped.square_clustering_on_a_large_dense_graph");
                    continue;
                }
                let sq = lib!("square_clustering", cluster::square_clustering(g, nn));
                if sq.len() != ids.len() {
                    cx.fail("C11.subset_keys", &format!("square_clustering keys ({})", what), format!("square_clustering({}) returned {} entries for {} requested nodes", what, sq.len(), ids.len()));
                    return;
                }
                for &v in &ids {
                    let name = &snap.names[v];
                    let x = sq.get(name).copied().unwrap_or(f64::NAN);
                    let e = orc.square(v);
                    if !close(x, e) {
                        cx.fail("C11.square", &format!("square_clustering ({}){}", what, if has_loop { " self-loops" } else { "" }), format!("square_clustering({:?}) = {} but the fraction of possible squares is {} [{}]", name, x, e, case.specs.short()));
                        return;
                    }
                    if !in_range("square_clustering", x, name, cx) {
                        return;
                    }
                }
            }
        }
        let tr = lib!("transitivity", cluster::transitivity(g));
        if snap.directed {
            refused!("transitivity", tr);
        } else {
            match tr {
                Ok(x) => {
                    let e = orc.transitivity();
                    if !close(x, e) || !(0.0..=1.0 + 1e-12).contains(&x) {
                        cx.fail("C11.transitivity", "transitivity value", format!("transitivity = {} but 3 x triangles / connected triples = {}", x, e));
                        return;
                    }
                }
                Err(e) => {
                    cx.fail("C11.transitivity", "transitivity failed", format!("transitivity failed: {:?}", e.kind));
                    return;
                }
            }
        }
        if env.keying == 0 {
            cx.states.push(super::lifecycle::ops_hash(&case.ops));
            let tri_any = (0..n).any(|v| orc.triangles(v) > 0);
            if tri_any {
                cx.nt.push(super::lifecycle::ops_hash(&case.ops));
                cx.count("probe.graph_with_triangles");
            }
        }
    }
    fn rule(&self) -> String {
        "single-edge graphs, directed and undirected, with and without self-loops, isolated and degree-1 nodes, n <= 16 (cliques, G(n,p), stars, grids, bipartite, lifecycle-built), unweighted or positive weights (dyadic, integer, decimal, 1e-17 scale, mixed scales, dyadic times 2^400 and times 2^-400 - products of three weights overflow / underflow, ratios are exact), under 3 (quick) / 5 (thorough) hash keyings; clustering (undirected, Fagiolo directed, Onnela weighted), average_clustering, triangles, transitivity, generalized_degree, square_clustering vs the definitions at 1e-9, coefficients in [0,1], for all nodes and for random non-empty proper subsets (keys = subset, values = full computation); one case in eight is a multi-edge graph, which must be refused with WrongMethod; directed graphs must be refused by the undirected-only functions. distinct_nontrivial = distinct graphs containing a triangle; one case in 800 is a dense graph (1-3 blocks, 60-300 nodes) with 2 100 - 12 500 stored edges under a pool of 2-16 workers (strategy thresholds); in a third of the cases a battery of valid unjudged calls runs first on a sibling graph (same names and edges, other node order), in a fifth the graph is queried on the same object before its last one to three operations are applied (DESIGN.md 0.2); square_clustering is not called on graphs of more than 6 000 edges (minutes per call); the graph object stays at one address from its first operation to the last judged call; on three dense graphs in four whose last operations replace weights in place (same counts; the first replacement moves the largest or the smallest weight) the object is queried (whole graph and subset, weighted) just before those replacements; the whole-graph query is at a random position among the judged selections".into()
    }
    fn assumptions(&self) -> Vec<String> {
        vec!["weighted clustering: either max-weight convention is accepted when a self-loop carries the largest weight".into(), "average_clustering over an empty counted set is not checked (0/0)".into(), "square_clustering (no error channel) is exercised on undirected graphs only".into()]
    }
}
