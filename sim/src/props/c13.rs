//! C13 — Louvain terminates with nested partitions of non-decreasing modularity.
//! L is the point: every call runs under the step budget; exceeding it is the violation
//! "did not terminate within B(n,m) steps", replayable because the step count is a function of the seed.
use super::algo::{self, AlgoGen};
use super::{Prop, Tier};
use crate::core::case::*;
use crate::core::json::J;
use crate::core::real::{self, Snap};
use crate::core::rng::Rng;
use crate::core::rt;
use crate::gen::{self, Shape, WeightRegime};
use crate::oracle::modularity as orc;
use crate::runner::{Ctx, EnvResult};
use graphrs::algorithms::community::louvain;
use std::collections::{BTreeSet, HashSet};

pub struct C13Prop;
pub static C13: C13Prop = C13Prop;

/// step budget of one Louvain call: >= 100x the largest count seen on terminating calls (recorded in the evidence)
pub fn louvain_budget(n: usize, m: usize) -> u64 {
    let s = (n + m) as u64;
    300_000 + 300_000 * s
}

pub type Level = BTreeSet<BTreeSet<String>>;
pub fn canon_levels(v: &[Vec<HashSet<String>>]) -> Vec<Level> {
    v.iter().map(|l| l.iter().map(|c| c.iter().cloned().collect()).collect()).collect()
}

pub struct LouvainArgs {
    pub weighted: bool,
    pub resolution: f64,
    pub threshold: f64,
    pub seed: u64,
}
pub fn args_of(case: &Case, snap: &Snap) -> LouvainArgs {
    LouvainArgs {
        weighted: case.p_bool("weighted").unwrap_or(false) && !snap.edges.is_empty() && snap.weighted(),
        resolution: case.p_f64("resolution").unwrap_or(1.0),
        threshold: case.p_f64("threshold").unwrap_or(1e-7),
        seed: case.p_u64("louvain_seed").unwrap_or(1),
    }
}

/// structural description of the graph for signatures (known findings are identified by it)
pub fn graph_class(snap: &Snap) -> String {
    if snap.n() > 400 {
        return format!("{}{} large", if snap.directed { "directed" } else { "undirected" }, if snap.multi { "+multi" } else { "" });
    }
    let reach = crate::oracle::reach::Reach::new(snap);
    let cyc = if snap.directed {
        let big = reach.strong().iter().map(|c| c.len()).max().unwrap_or(0);
        if big >= 3 {
            "with a strongly connected component of >= 3 nodes"
        } else if big == 2 {
            "largest strongly connected component has 2 nodes"
        } else {
            "acyclic"
        }
    } else {
        ""
    };
    format!("{}{} {}", if snap.directed { "directed" } else { "undirected" }, if snap.multi { "+multi" } else { "" }, cyc).trim().to_string()
}

impl Prop for C13Prop {
    fn id(&self) -> &'static str {
        "C13"
    }
    fn runs(&self, tier: Tier) -> u64 {
        match tier {
            Tier::Quick => 6_000,
            Tier::Thorough => 150_000,
        }
    }
    fn gen(&self, seed: u64, idx: u64, tier: Tier) -> Case {
        let mut case = AlgoGen {
            large_pct: 25,
            n_small: (2, 14),
            n_large: (15, 40),
            regimes: vec![WeightRegime::AllNan, WeightRegime::Dyadic, WeightRegime::Nasty, WeightRegime::SmallInt, WeightRegime::FineDyadic, WeightRegime::Tiny, WeightRegime::Overflowing],
            kinds: AlgoGen::all_kinds(),
            shapes: Some(vec![Shape::Path, Shape::Cycle, Shape::Cycle, Shape::Star, Shape::Cliques, Shape::Cliques, Shape::Bipartite, Shape::Gnp, Shape::Union, Shape::Grid, Shape::Tree, Shape::NestedScc, Shape::GradedHub]),
            lifecycle_pct: 25,
            keyings: 1,
            boundary_per_mille: 0,
            huge_one_in: 800,
            hub_one_in: 0,
        }
        .gen("C13", seed, idx);
        if idx % 40 == 39 {
            let mut wr = Rng::new(seed, "workload.ring");
            let (d, m, l) = crate::gen::kind_from(idx as usize / 40 % 8);
            let regime = *wr.pick(&[WeightRegime::AllNan, WeightRegime::SmallInt]);
            let (specs, ops) = crate::gen::gen_graph(&mut wr, &crate::gen::GraphOpts { directed: d, multi: m, self_loops: l, n_min: 60, n_max: 120, regime, shape: Some(Shape::RingOfCliques), sprinkle: false });
            case.specs = specs;
            case.ops = ops;
        }
        let mut sr = Rng::new(seed, "config.special");
        let mut force_weighted = false;
        match sr.below(600) {
            0..=9 => {
                // regular graphs with more than a thousand edges (every node order gives the same degree profile)
                let (d, _, l) = crate::gen::kind_from(idx as usize % 8);
                let mut wr = Rng::new(seed, "workload.regular");
                let regime = *wr.pick(&[WeightRegime::AllNan, WeightRegime::AllNan, WeightRegime::SmallInt]);
                let (specs, ops) = crate::gen::gen_graph(&mut wr, &crate::gen::GraphOpts { directed: d, multi: false, self_loops: l, n_min: 128, n_max: 220, regime, shape: Some(Shape::Circulant), sprinkle: false });
                case.specs = specs;
                case.ops = ops;
                case.params.put("source", J::s("regular graph with more than 1000 edges"));
            }
            10 => {
                // a long chain whose weights grow slowly: local moving needs more than a thousand sweeps
                let (d, _, _) = crate::gen::kind_from(idx as usize % 8);
                let n = sr.range(800, 1200);
                let specs = Specs::kind(d, false, false);
                let names: Vec<String> = (0..n).map(|i| format!("c{:04}", i)).collect();
                let mut ops = vec![Op::AddNodes(names.iter().map(|s| (s.clone(), None)).collect())];
                for i in 1..n {
                    ops.push(Op::AddEdge(E { u: names[i - 1].clone(), v: names[i].clone(), w: wbits(1.0 + 0.01 * i as f64), attr: None }));
                }
                case.specs = specs;
                case.ops = ops;
                force_weighted = true;
                case.params.put("source", J::s("long chain with slowly growing weights"));
            }
            _ => {}
        }
        let mut rng = Rng::new(seed, "c13.args");
        case.params.put("louvain_seed", J::U(match rng.below(10) {
            0 => u64::MAX,
            1 => u64::MAX - 1,
            2 => 0,
            _ => rng.next_u64() % 1000,
        }));
        case.params.put("resolution", J::F(*rng.pick(&[1.0, 1.0, 0.5, 2.0, 0.25, 1.5, 0.1])));
        case.params.put("threshold", J::F(*rng.pick(&[0.0, 1e-7, 1e-7, 1e-3, 0.1, 1.0])));
        let wflag = rng.chance(1, 2);
        case.params.put("weighted", J::Bool(wflag || force_weighted));
        let k = match tier {
            Tier::Quick => 4,
            Tier::Thorough => 8,
        };
        case.envs = gen::envs(seed, k);
        case
    }
    fn hang_sig(&self, case: &Case, label: &str) -> String {
        // computed from the case alone (the run thread is gone): rebuild the graph
        let class = real::build(case.specs, &case.ops).ok().and_then(|g| Snap::of(&g).ok()).map(|s| graph_class(&s)).unwrap_or_default();
        format!("{} does not terminate: {}", label, class)
    }
    fn run_env(&self, case: &Case, env: &Env, cx: &mut Ctx) {
        let b = match algo::build(case, cx) {
            Some(b) => b,
            None => return,
        };
        let (g, snap) = (&b.g, &b.snap);
        let n = snap.n();
        if snap.edges.is_empty() {
            return; // the property is stated for graphs with at least one edge
        }
        let a = args_of(case, snap);
        let budget = louvain_budget(n, snap.edges.len());
        let class = graph_class(snap);
        cx.count(&format!("class.{}", class));
        if env.keying % 2 == 1 {
            // what ran on this thread before: the same call on the same graph declared in another node order
            if let Some(sib) = algo::sibling(case) {
                let _ = rt::call("louvain_partitions(earlier graph)", budget, || louvain::louvain_partitions(&sib, a.weighted, Some(a.resolution), Some(a.threshold), Some(a.seed)).is_ok());
                cx.count("probe.earlier_call_on_a_sibling_graph");
            }
        }
        let r = rt::call("louvain_partitions", budget, || louvain::louvain_partitions(g, a.weighted, Some(a.resolution), Some(a.threshold), Some(a.seed)));
        cx.max("max.louvain_steps", rt::last_steps());
        let levels = match r {
            Err(p) => {
                cx.fail("C13.panic", &format!("louvain_partitions panicked: {}", class), format!("louvain_partitions(weighted={}, resolution={}, threshold={}, seed={}) panicked (keying {}): {} [{}]", a.weighted, a.resolution, a.threshold, a.seed, env.keying, p.0, case.specs.short()));
                return;
            }
            Ok(Err(e)) => {
                cx.fail("C13.error", &format!("louvain_partitions returned Err: {}", class), format!("louvain_partitions failed: {:?} {}", e.kind, e.message));
                return;
            }
            Ok(Ok(l)) => l,
        };
        if levels.is_empty() {
            cx.fail("C13.no_levels", &format!("empty list of levels: {}", class), "louvain_partitions returned an empty list of levels".into());
            return;
        }
        if levels.len() >= 3 {
            cx.count("probe.three_or_more_levels");
        }
        cx.count(&format!("levels.{}", levels.len().min(5)));
        let all: BTreeSet<String> = snap.names.iter().cloned().collect();
        let canon = canon_levels(&levels);
        for (k, l) in levels.iter().enumerate() {
            let mut seen: BTreeSet<&String> = BTreeSet::new();
            let mut ok = true;
            for c in l {
                if c.is_empty() {
                    ok = false;
                }
                for x in c {
                    if !all.contains(x) || !seen.insert(x) {
                        ok = false;
                    }
                }
            }
            if !ok || seen.len() != n {
                cx.fail("C13.level_not_partition", &format!("level is not a partition: {}", class), format!("level {} is not a partition of the node set into non-empty communities: {:?} (nodes {:?})", k, l, snap.names));
                return;
            }
        }
        for k in 1..canon.len() {
            for c in &canon[k] {
                // c must be a union of communities of the level before
                let ok = canon[k - 1].iter().all(|p| p.is_subset(c) || p.is_disjoint(c));
                if !ok {
                    cx.fail("C13.not_nested", &format!("levels not nested: {}", class), format!("level {} is not a coarsening of level {}: {:?} vs {:?}", k, k - 1, canon[k], canon[k - 1]));
                    return;
                }
            }
        }
        if !snap.multi {
            let to_sets = |l: &Level| -> Vec<BTreeSet<usize>> { l.iter().map(|c| c.iter().filter_map(|x| snap.names.iter().position(|y| y == x)).collect()).collect() };
            let single: Vec<BTreeSet<usize>> = (0..n).map(|i| [i].into_iter().collect()).collect();
            let mut prev = orc::modularity(snap, &single, a.weighted, a.resolution);
            for (k, l) in canon.iter().enumerate() {
                let q = orc::modularity(snap, &to_sets(l), a.weighted, a.resolution);
                if !q.is_finite() || !prev.is_finite() {
                    // sums or products of the weights overflow: modularity is not a number any more; what
                    // remains of the property is termination, partitions and nesting
                    cx.count("probe.modularity_not_finite");
                    prev = q;
                    continue;
                }
                if q < prev - 1e-9 {
                    cx.fail(
                        "C13.modularity_decreases",
                        &format!("modularity decreases: {}", class),
                        format!("modularity (weighted={}, resolution={}) drops from {} ({}) to {} at level {}: {:?} (seed {}, keying {}) [{}]", a.weighted, a.resolution, prev, if k == 0 { "all singletons".to_string() } else { format!("level {}", k - 1) }, q, k, l, a.seed, env.keying, case.specs.short()),
                    );
                    return;
                }
                prev = q;
            }
            cx.count("modularity_monotonicity_checks");
        }
        // louvain_communities = the last level; both calls issued as the first action of two fresh threads with
        // the same keying, so that this clause does not depend on C17
        let (specs, ops) = (case.specs, case.ops.clone());
        let (w, res, thr, sd) = (a.weighted, a.resolution, a.threshold, a.seed);
        let ops2 = ops.clone();
        let pa = rt::fresh_thread(env.keying, move || {
            let g = real::build(specs, &ops).ok()?;
            rt::call("louvain_partitions", budget, || louvain::louvain_partitions(&g, w, Some(res), Some(thr), Some(sd))).ok()?.ok()
        });
        let pb = rt::fresh_thread(env.keying, move || {
            let g = real::build(specs, &ops2).ok()?;
            rt::call("louvain_communities", budget, || louvain::louvain_communities(&g, w, Some(res), Some(thr), Some(sd))).ok()?.ok()
        });
        match (pa, pb) {
            (Some(pa), Some(pb)) => {
                let last: Option<Level> = canon_levels(&pa).last().cloned();
                let got: Level = pb.iter().map(|c| c.iter().cloned().collect()).collect();
                if last.as_ref() != Some(&got) {
                    cx.fail("C13.communities_not_last_level", &format!("louvain_communities != last level: {}", class), format!("louvain_communities = {:?} but the last level of louvain_partitions (same arguments, same keying, fresh threads) is {:?}", got, last));
                    return;
                }
            }
            (pa, pb) => {
                cx.fail("C13.communities_not_last_level", &format!("louvain_communities failed: {}", class), format!("in fresh threads louvain_partitions ok = {}, louvain_communities ok = {}", pa.is_some(), pb.is_some()));
                return;
            }
        }
        cx.count("louvain_runs_checked");
        if env.keying == 0 {
            cx.states.push(super::lifecycle::ops_hash(&case.ops));
            cx.nt.push(crate::core::rng::mix(super::lifecycle::ops_hash(&case.ops), crate::core::rng::hash_str(&case.params.to_string())));
        }
    }
    fn cross(&self, _case: &Case, _results: &[EnvResult], _cx: &mut Ctx) {}
    fn rule(&self) -> String {
        "graphs of all 8 kinds with >= 1 edge: paths, cycles, stars, cliques joined by bridges, bipartite, G(n,p), unions, grids, trees, nested SCCs (n <= 40) and lifecycle-built graphs (n <= 8), unweighted or positive weights; seeds, resolution in (0,2], threshold in {0,1e-7,1e-3,0.1,1}; each case under 4 (quick) / 8 (thorough) hash keyings; every louvain call runs under the step budget 3e5 + 3e5 (n+m) allocations (exceeding it = did not terminate). Oracle: Ok with >= 1 level, every level a partition into non-empty communities, each level a coarsening of the previous, on single-edge graphs the oracle's own modularity is non-decreasing from singletons along the levels, louvain_communities = last level (both in fresh threads with equal keying). distinct_nontrivial = distinct (graph, arguments) with >= 1 edge; one case in 800 is a dense graph (1-3 blocks, 60-300 nodes) with 2 100 - 12 500 stored edges under a pool of 2-16 workers (strategy thresholds); weights also 1 + k 2^-j, 1e-17-scale, and finite weights whose sums / products overflow (1e308, MAX/4: modularity then is not a number and only termination, partitions and nesting are judged); shape 'hub joined to 3-5 identical parts by spokes graded in steps of 2^-41..2^-35 or one ulp'; one case in 60 is a circulant (regular) graph of 128-220 nodes with up to 1 980 edges, one in 600 a chain of 800-1 200 nodes with slowly growing weights (more than a thousand local-moving sweeps); under odd keyings the same call runs first on the same graph declared in another node order (what ran on the thread before must not matter); budget 3e5 + 3e5 (n+m); in a third of the cases a battery of valid unjudged calls runs first on a sibling graph (same names and edges, other node order), in a fifth the graph is queried on the same object before its last one to three operations are applied (DESIGN.md 0.2)".into()
    }
    fn assumptions(&self) -> Vec<String> {
        vec!["termination is decided by a step budget (allocations); max.louvain_steps in coverage.fired vs the budget shows the margin".into(), "modularity monotonicity is checked with the harness's own Newman formula, at 1e-9".into()]
    }
}
