//! C02 — every read API describes one and the same graph.
use super::lifecycle::{self, Arms};
use super::{Prop, Tier};
use crate::core::case::*;
use crate::core::model::{canon_edges, Model, K, ME};
use crate::core::real::{self, G};
use crate::core::rng::Rng;
use crate::core::rt::{self, Panicked};
use crate::gen;
use crate::runner::{Ctx, EnvResult};
use graphrs::{Edge, Error, Node};
use std::collections::BTreeSet;
use std::sync::Arc;

pub struct C02Prop;
pub static C02: C02Prop = C02Prop;

const B: u64 = real::OP_BUDGET;
type Canon = Vec<(String, String, u64, Option<u32>)>;

fn canon_real(directed: bool, v: &[&Arc<Edge<String, u32>>]) -> Canon {
    canon_edges(directed, v.iter().map(|e| (e.u.clone(), e.v.clone(), wbits(e.weight), e.attributes)), false)
}
fn canon_model<'a>(directed: bool, it: impl Iterator<Item = &'a ME>) -> Canon {
    canon_edges(directed, it.map(|e| (e.u.clone(), e.v.clone(), e.w, e.attr)), false)
}
fn names_of(v: &[&Arc<Node<String, u32>>]) -> Vec<String> {
    v.iter().map(|n| n.name.clone()).collect()
}
fn sorted(mut v: Vec<String>) -> Vec<String> {
    v.sort();
    v
}
fn has_dups(v: &[String]) -> bool {
    let s: BTreeSet<&String> = v.iter().collect();
    s.len() != v.len()
}

/// what a fallible query answered, reduced to what C02 talks about
fn err_kind<T>(r: &Result<T, Error>) -> Option<K> {
    r.as_ref().err().map(|e| real::kind(&e.kind))
}

struct Chk<'a> {
    cx: &'a mut Ctx,
    step: usize,
    specs: Specs,
}
impl<'a> Chk<'a> {
    fn fail(&mut self, oracle: &str, sig: &str, detail: String) {
        let d = format!("after step {}: {} [{}]", self.step, detail, self.specs.short());
        self.cx.fail(oracle, sig, d);
    }
    fn panic(&mut self, api: &str, p: &Panicked) {
        self.fail("C02.panic", &format!("{} panicked", api), format!("{} panicked: {}", api, p.0));
    }
    /// expect an error of one of the given kinds
    fn expect_err<T>(&mut self, api: &str, args: &str, r: &Result<T, Error>, kinds: &[K]) {
        match err_kind(r) {
            Some(k) if kinds.contains(&k) => {
                self.cx.count(&format!("err.{:?}", k));
            }
            other => self.fail("C02.error_kind", &format!("{} expected {:?} got {:?}", api, kinds, other), format!("{}({}) must fail with {:?} but answered {:?}", api, args, kinds, other.map(|k| format!("Err({:?})", k)).unwrap_or("Ok".into()))),
        }
    }
}

/// Cross-check every query against the reference state (the model, which at this point equals what
/// get_all_nodes / get_all_edges show; `in_sync` says whether its insertion order is trustworthy).
pub fn check_views(step: usize, g: &G, m: &Model, in_sync: bool, case: &Case, cx: &mut Ctx) {
    let s = m.specs;
    let directed = s.directed;
    let mut c = Chk { cx, step, specs: s };
    let mut universe = case.universe();
    universe.push("~absent1".to_string());
    universe.push("~absent2".to_string());
    let node_names: Vec<String> = m.nodes.iter().map(|n| n.0.clone()).collect();
    let has = |x: &str| node_names.iter().any(|n| n == x);

    macro_rules! q {
        ($label:expr, $e:expr) => {
            match rt::call($label, B, || $e) {
                Ok(v) => v,
                Err(p) => {
                    c.panic($label, &p);
                    return;
                }
            }
        };
    }

    // ---- nodes ------------------------------------------------------------------------------
    let n_real = q!("number_of_nodes", g.number_of_nodes());
    if n_real != node_names.len() {
        c.fail("C02.number_of_nodes", "number_of_nodes", format!("number_of_nodes() = {} but get_all_nodes has {}", n_real, node_names.len()));
    }
    let all_names: Vec<String> = q!("get_all_node_names", g.get_all_node_names().into_iter().cloned().collect());
    if all_names != node_names {
        c.fail("C02.node_names", "get_all_node_names", format!("get_all_node_names {:?} vs get_all_nodes {:?}", all_names, node_names));
    }
    for x in &universe {
        let h = q!("has_node", g.has_node(x));
        if h != has(x) {
            c.fail("C02.has_node", "has_node", format!("has_node({:?}) = {} but the node list says {}", x, h, has(x)));
        }
        let n = q!("get_node", g.get_node(x.clone()).map(|n| (n.name.clone(), n.attributes)));
        let exp = m.nodes.iter().find(|n| &n.0 == x).cloned();
        if n != exp {
            c.fail("C02.get_node", "get_node", format!("get_node({:?}) = {:?}, expected {:?}", x, n, exp));
        }
    }
    for i in 0..=node_names.len() {
        let n = q!("get_node_by_index", g.get_node_by_index(&i).map(|n| (n.name.clone(), n.attributes)));
        let exp = m.nodes.get(i).cloned();
        if n != exp {
            c.fail("C02.get_node_by_index", "get_node_by_index", format!("get_node_by_index({}) = {:?}, expected {:?}", i, n, exp));
        }
    }

    // ---- pairs ------------------------------------------------------------------------------
    // every ordered pair of the universe; for universes of more than 80 names a seeded sample of 600 pairs:
    // both orientations of stored edges, and random pairs
    let pairs: Vec<(String, String)> = if universe.len() <= 80 {
        universe.iter().flat_map(|a| universe.iter().map(move |b| (a.clone(), b.clone()))).collect()
    } else {
        let mut pr = crate::core::rng::Rng::new(case.seed ^ (step as u64).wrapping_mul(0x9E37_79B9_7F4A_7C15), "c02.pairs");
        let mut v: Vec<(String, String)> = vec![];
        for _ in 0..300 {
            if m.edges.is_empty() {
                break;
            }
            let e = pr.pick(&m.edges);
            v.push(if pr.chance(1, 2) { (e.u.clone(), e.v.clone()) } else { (e.v.clone(), e.u.clone()) });
        }
        for _ in 0..300 {
            v.push((pr.pick(&universe).clone(), pr.pick(&universe).clone()));
        }
        c.cx.count("probe.pairs_sampled_on_a_large_universe");
        v
    };
    for (a, b) in &pairs {
        {
            let both = has(a) && has(b);
            let joining: Vec<&ME> = m.edges.iter().filter(|e| m.joins(e, a, b)).collect();
            if !s.multi {
                let r = q!("get_edge", g.get_edge(a.clone(), b.clone()).map(|e| vec![(e.u.clone(), e.v.clone(), wbits(e.weight), e.attributes)]));
                if !both {
                    c.expect_err("get_edge", &format!("{:?},{:?}", a, b), &r, &[K::NodeNotFound]);
                } else if joining.is_empty() {
                    c.expect_err("get_edge", &format!("{:?},{:?}", a, b), &r, &[K::EdgeNotFound]);
                } else {
                    let exp = canon_model(directed, joining.iter().copied());
                    match r {
                        Ok(v) => {
                            let got = canon_edges(directed, v.into_iter(), false);
                            if got != exp {
                                c.fail("C02.get_edge", "get_edge wrong edge", format!("get_edge({:?},{:?}) = {:?}, the stored edge is {:?}", a, b, lifecycle::show_edges(&got), lifecycle::show_edges(&exp)));
                            }
                        }
                        Err(e) => c.fail("C02.get_edge", &format!("get_edge missing edge {:?}", real::kind(&e.kind)), format!("get_edge({:?},{:?}) failed with {:?} but get_all_edges holds {:?}", a, b, e.kind, lifecycle::show_edges(&exp))),
                    }
                }
                let r2 = q!("get_edges", g.get_edges(a.clone(), b.clone()).map(|v| v.len()));
                let kinds: &[K] = if both { &[K::WrongMethod] } else { &[K::WrongMethod, K::NodeNotFound] };
                c.expect_err("get_edges", &format!("{:?},{:?} on a single-edge graph", a, b), &r2, kinds);
            } else {
                let r = q!("get_edges", g.get_edges(a.clone(), b.clone()).map(|v| v.iter().map(|e| (e.u.clone(), e.v.clone(), wbits(e.weight), e.attributes)).collect::<Vec<_>>()));
                if !both {
                    c.expect_err("get_edges", &format!("{:?},{:?}", a, b), &r, &[K::NodeNotFound]);
                } else if joining.is_empty() {
                    c.expect_err("get_edges", &format!("{:?},{:?}", a, b), &r, &[K::EdgeNotFound]);
                } else {
                    match r {
                        Ok(v) => {
                            let exp_sorted = canon_model(directed, joining.iter().copied());
                            let got_sorted = canon_edges(directed, v.iter().cloned(), false);
                            if got_sorted != exp_sorted {
                                c.fail("C02.get_edges", "get_edges wrong multiset", format!("get_edges({:?},{:?}) = {:?}, stored parallel edges are {:?}", a, b, lifecycle::show_edges(&got_sorted), lifecycle::show_edges(&exp_sorted)));
                            } else if in_sync {
                                // insertion order of the parallel edges (orientation of the stored object is not compared)
                                let norm = |u: &String, v: &String| if !directed && u > v { (v.clone(), u.clone()) } else { (u.clone(), v.clone()) };
                                let exp_seq: Vec<_> = joining.iter().map(|e| (norm(&e.u, &e.v), e.w, e.attr)).collect();
                                let got_seq: Vec<_> = v.iter().map(|e| (norm(&e.0, &e.1), e.2, e.3)).collect();
                                if exp_seq != got_seq {
                                    c.fail("C02.parallel_order", "get_edges order", format!("get_edges({:?},{:?}) returns the parallel edges as {:?} but they were inserted as {:?}", a, b, got_seq, exp_seq));
                                }
                                if joining.len() >= 2 {
                                    c.cx.count("probe.parallel_edges_ordered");
                                }
                            }
                        }
                        Err(e) => c.fail("C02.get_edges", &format!("get_edges missing {:?}", real::kind(&e.kind)), format!("get_edges({:?},{:?}) failed with {:?} but {} parallel edges are stored", a, b, e.kind, joining.len())),
                    }
                }
                let r2 = q!("get_edge", g.get_edge(a.clone(), b.clone()).map(|_| ()));
                let kinds: &[K] = if both { &[K::WrongMethod] } else { &[K::WrongMethod, K::NodeNotFound] };
                c.expect_err("get_edge", &format!("{:?},{:?} on a multi-edge graph", a, b), &r2, kinds);
            }
            if !c.cx.viol.is_empty() {
                return;
            }
        }
    }

    // ---- per node ---------------------------------------------------------------------------
    // successor / predecessor sets by name, computed once per step
    let mut succ_map: std::collections::BTreeMap<&str, BTreeSet<String>> = std::collections::BTreeMap::new();
    let mut pred_map: std::collections::BTreeMap<&str, BTreeSet<String>> = std::collections::BTreeMap::new();
    for e in &m.edges {
        succ_map.entry(e.u.as_str()).or_default().insert(e.v.clone());
        pred_map.entry(e.v.as_str()).or_default().insert(e.u.clone());
        if !directed {
            succ_map.entry(e.v.as_str()).or_default().insert(e.u.clone());
            pred_map.entry(e.u.as_str()).or_default().insert(e.v.clone());
        }
    }
    let succ_of = |x: &str| -> Vec<String> { succ_map.get(x).map(|s| s.iter().cloned().collect()).unwrap_or_default() };
    let pred_of = |x: &str| -> Vec<String> { pred_map.get(x).map(|s| s.iter().cloned().collect()).unwrap_or_default() };
    // per-node queries: every name of the universe; on universes of more than 300 names the three nodes of highest
    // degree, 60 seeded others and the absent names
    let per_node: Vec<String> = if universe.len() <= 300 {
        universe.clone()
    } else {
        let mut pr = crate::core::rng::Rng::new(case.seed ^ (step as u64).wrapping_mul(0xA24B_AED4_963E_E407), "c02.nodes");
        let mut by_deg: Vec<(usize, &str)> = succ_map.iter().map(|(k, v)| (v.len() + pred_map.get(k).map(|p| p.len()).unwrap_or(0), *k)).collect();
        by_deg.sort_by(|a, b| b.0.cmp(&a.0).then(a.1.cmp(b.1)));
        let mut v: Vec<String> = by_deg.iter().take(3).map(|x| x.1.to_string()).collect();
        for _ in 0..60 {
            v.push(pr.pick(&universe).clone());
        }
        v.push("~absent1".to_string());
        c.cx.count("probe.nodes_sampled_on_a_large_universe");
        v
    };
    for x in &per_node {
        let present = has(x);
        // all edges touching x
        let r = q!("get_edges_for_node", g.get_edges_for_node(x.clone()).map(|v| canon_real(directed, &v)));
        if !present {
            c.expect_err("get_edges_for_node", &format!("{:?}", x), &r, &[K::NodeNotFound]);
        } else {
            let exp = canon_model(directed, m.edges.iter().filter(|e| &e.u == x || &e.v == x));
            match r {
                Ok(got) => {
                    if got != exp {
                        let loops = m.edges.iter().filter(|e| &e.u == x && &e.v == x).count();
                        let sig = if directed && loops > 0 && got.len() == exp.len() + loops { "get_edges_for_node lists a directed self-loop twice" } else { "get_edges_for_node mismatch" };
                        c.fail("C02.edges_for_node", sig, format!("get_edges_for_node({:?}) = {:?} but the stored edges touching it are {:?}", x, lifecycle::show_edges(&got), lifecycle::show_edges(&exp)));
                    }
                }
                Err(e) => c.fail("C02.edges_for_node", "get_edges_for_node failed", format!("get_edges_for_node({:?}) failed with {:?}", x, e.kind)),
            }
        }
        for (api, is_in) in [("get_in_edges_for_node", true), ("get_out_edges_for_node", false)] {
            let r = q!(api, if is_in { g.get_in_edges_for_node(x.clone()) } else { g.get_out_edges_for_node(x.clone()) }.map(|v| canon_real(directed, &v)));
            if !directed {
                let kinds: &[K] = if present { &[K::WrongMethod] } else { &[K::WrongMethod, K::NodeNotFound] };
                c.expect_err(api, &format!("{:?} on an undirected graph", x), &r, kinds);
            } else if !present {
                c.expect_err(api, &format!("{:?}", x), &r, &[K::NodeNotFound]);
            } else {
                let exp = canon_model(true, m.edges.iter().filter(|e| if is_in { &e.v == x } else { &e.u == x }));
                match r {
                    Ok(got) if got == exp => {}
                    Ok(got) => c.fail("C02.in_out_edges", api, format!("{}({:?}) = {:?}, expected {:?}", api, x, lifecycle::show_edges(&got), lifecycle::show_edges(&exp))),
                    Err(e) => c.fail("C02.in_out_edges", api, format!("{}({:?}) failed with {:?}", api, x, e.kind)),
                }
            }
        }
        for (api, want_succ) in [("get_successor_nodes", true), ("get_predecessor_nodes", false)] {
            let r = q!(api, if want_succ { g.get_successor_nodes(x.clone()) } else { g.get_predecessor_nodes(x.clone()) }.map(|v| names_of(&v)));
            let rn = q!(api, if want_succ { g.get_successor_node_names(x.clone()) } else { g.get_predecessor_node_names(x.clone()) }.map(|v| v.into_iter().cloned().collect::<Vec<String>>()));
            if !directed {
                let kinds: &[K] = if present { &[K::WrongMethod] } else { &[K::WrongMethod, K::NodeNotFound] };
                c.expect_err(api, &format!("{:?} on an undirected graph", x), &r, kinds);
                c.expect_err(&format!("{}_names", api), &format!("{:?} on an undirected graph", x), &rn, kinds);
            } else if !present {
                c.expect_err(api, &format!("{:?}", x), &r, &[K::NodeNotFound]);
                c.expect_err(&format!("{}_names", api), &format!("{:?}", x), &rn, &[K::NodeNotFound]);
            } else {
                let exp = if want_succ { succ_of(x) } else { pred_of(x) };
                for (which, got) in [(api.to_string(), r.ok()), (format!("{}_names", api), rn.ok())] {
                    match got {
                        Some(v) => {
                            if has_dups(&v) || sorted(v.clone()) != exp {
                                c.fail("C02.adjacent_nodes", &which, format!("{}({:?}) = {:?}, expected the set {:?}", which, x, v, exp));
                            }
                        }
                        None => c.fail("C02.adjacent_nodes", &which, format!("{}({:?}) failed on a directed graph holding the node", which, x)),
                    }
                }
            }
        }
        // neighbours
        let r = q!("get_neighbor_nodes", g.get_neighbor_nodes(x.clone()).map(|v| names_of(&v)));
        if !present {
            c.expect_err("get_neighbor_nodes", &format!("{:?}", x), &r, &[K::NodeNotFound]);
        } else {
            let mut exp: BTreeSet<String> = succ_of(x).into_iter().collect();
            exp.extend(pred_of(x));
            let exp: Vec<String> = exp.into_iter().collect();
            match r {
                Ok(v) => {
                    if has_dups(&v) || sorted(v.clone()) != exp {
                        c.fail("C02.neighbors", "get_neighbor_nodes", format!("get_neighbor_nodes({:?}) = {:?}, expected the set {:?}", x, v, exp));
                    }
                }
                Err(e) => c.fail("C02.neighbors", "get_neighbor_nodes failed", format!("get_neighbor_nodes({:?}) failed with {:?}", x, e.kind)),
            }
            // no error channel: existing names only
            let v = q!("get_successors_or_neighbors", names_of(&g.get_successors_or_neighbors(x.clone())));
            let exp2 = succ_of(x);
            if has_dups(&v) || sorted(v.clone()) != exp2 {
                c.fail("C02.successors_or_neighbors", "get_successors_or_neighbors", format!("get_successors_or_neighbors({:?}) = {:?}, expected the set {:?}", x, v, exp2));
            }
            let bfs = q!("breadth_first_search", g.breadth_first_search(x));
            // reachable set over successors / neighbours
            let mut reach: BTreeSet<String> = BTreeSet::new();
            let mut stack = vec![x.clone()];
            while let Some(y) = stack.pop() {
                if reach.insert(y.clone()) {
                    stack.extend(succ_of(&y));
                }
            }
            if bfs.first() != Some(x) || has_dups(&bfs) || bfs.iter().cloned().collect::<BTreeSet<_>>() != reach {
                c.fail("C02.bfs", "breadth_first_search", format!("breadth_first_search({:?}) = {:?}, expected {:?} first and then exactly {:?}", x, bfs, x, reach));
            }
        }
        if !c.cx.viol.is_empty() {
            return;
        }
    }

    // ---- node sets --------------------------------------------------------------------------
    let mut rng = Rng::new(case.seed ^ (step as u64).wrapping_mul(0x9E37), "c02.subsets");
    for round in 0..4 {
        let k = rng.range(0, 3.min(universe.len()));
        let mut set: Vec<String> = (0..k).map(|_| rng.pick(&universe).clone()).collect();
        if rng.chance(3, 4) {
            set.retain(|x| has(x));
        }
        if round == 2 && !node_names.is_empty() {
            // a name listed more than once (a list is not a set to every implementation)
            let x = rng.pick(&node_names).clone();
            set.push(x.clone());
            if rng.chance(1, 2) {
                set.insert(0, x);
            } else {
                set.push(x);
            }
        }
        if round == 3 && node_names.len() <= 12 {
            // every node named twice: a list longer than the node list, all present
            set = node_names.iter().chain(node_names.iter()).cloned().collect();
        }
        let all_present = set.iter().all(|x| has(x));
        let hn = q!("has_nodes", g.has_nodes(&set));
        if hn != all_present {
            c.fail("C02.has_nodes", "has_nodes", format!("has_nodes({:?}) = {}, expected {}", set, hn, all_present));
        }
        let inset = |x: &String| set.contains(x);
        let r = q!("get_edges_for_nodes", g.get_edges_for_nodes(&set).map(|v| canon_real(directed, &v)));
        if !all_present {
            c.expect_err("get_edges_for_nodes", &format!("{:?}", set), &r, &[K::NodeNotFound]);
        } else {
            let exp = canon_model(directed, m.edges.iter().filter(|e| inset(&e.u) || inset(&e.v)));
            if r.as_ref().ok() != Some(&exp) {
                c.fail("C02.edges_for_nodes", "get_edges_for_nodes", format!("get_edges_for_nodes({:?}) = {:?}, expected {:?}", set, r.map(|v| lifecycle::show_edges(&v)).map_err(|e| e.kind), lifecycle::show_edges(&exp)));
            }
        }
        for (api, is_in) in [("get_in_edges_for_nodes", true), ("get_out_edges_for_nodes", false)] {
            let r = q!(api, if is_in { g.get_in_edges_for_nodes(&set) } else { g.get_out_edges_for_nodes(&set) }.map(|v| canon_real(directed, &v)));
            if !directed {
                let kinds: &[K] = if all_present { &[K::WrongMethod] } else { &[K::WrongMethod, K::NodeNotFound] };
                c.expect_err(api, &format!("{:?} on an undirected graph", set), &r, kinds);
            } else if !all_present {
                c.expect_err(api, &format!("{:?}", set), &r, &[K::NodeNotFound]);
            } else {
                let exp = canon_model(true, m.edges.iter().filter(|e| if is_in { inset(&e.v) } else { inset(&e.u) }));
                if r.as_ref().ok() != Some(&exp) {
                    c.fail("C02.in_out_edges_for_nodes", api, format!("{}({:?}) = {:?}, expected {:?}", api, set, r.map(|v| lifecycle::show_edges(&v)).map_err(|e| e.kind), lifecycle::show_edges(&exp)));
                }
            }
        }
    }

    // ---- maps -------------------------------------------------------------------------------
    let smap: Vec<(String, Vec<String>)> = q!("get_successors_map", g.get_successors_map().iter().map(|(k, v)| (k.clone(), sorted(v.iter().cloned().collect()))).collect());
    let pmap: Vec<(String, Vec<String>)> = q!("get_predecessors_map", g.get_predecessors_map().iter().map(|(k, v)| (k.clone(), sorted(v.iter().cloned().collect()))).collect());
    for (k, _) in smap.iter().chain(pmap.iter()) {
        if !has(k) {
            c.fail("C02.adjacency_map", "map key is not a node", format!("an adjacency map has key {:?}, which is not a node", k));
        }
    }
    for x in &node_names {
        let got = smap.iter().find(|(k, _)| k == x).map(|(_, v)| v.clone()).unwrap_or_default();
        if got != succ_of(x) {
            c.fail("C02.adjacency_map", "get_successors_map", format!("get_successors_map()[{:?}] = {:?}, expected {:?}", x, got, succ_of(x)));
        }
        let gotp = pmap.iter().find(|(k, _)| k == x).map(|(_, v)| v.clone()).unwrap_or_default();
        if directed {
            if gotp != pred_of(x) {
                c.fail("C02.adjacency_map", "get_predecessors_map", format!("get_predecessors_map()[{:?}] = {:?}, expected {:?}", x, gotp, pred_of(x)));
            }
        } else if !gotp.is_empty() && gotp != pred_of(x) {
            // undirected: documented as unused; accepted if empty or equal to the neighbour map
            c.fail("C02.adjacency_map", "get_predecessors_map undirected", format!("get_predecessors_map()[{:?}] = {:?} on an undirected graph: neither empty nor the neighbour set {:?}", x, gotp, pred_of(x)));
        }
    }
    let ehw = q!("edges_have_weight", g.edges_have_weight());
    let exp = m.edges.iter().all(|e| !f64::from_bits(e.w).is_nan());
    if ehw != exp {
        c.fail("C02.edges_have_weight", "edges_have_weight", format!("edges_have_weight() = {}, expected {}", ehw, exp));
    }
    c.cx.count("view_checks");
    #[cfg(graphrs_verif)]
    {
        let snap = q!("verif_snapshot", g.verif_snapshot());
        whitebox(&snap, m, &mut c);
    }
}

/// White-box (hook) part: the twelve private indexes agree with each other and with the stored edges.
#[cfg(graphrs_verif)]
fn whitebox(s: &graphrs::VerifSnapshot<String>, m: &Model, c: &mut Chk) {
    let directed = m.specs.directed;
    let n = s.nodes_vec.len();
    let names: Vec<String> = m.nodes.iter().map(|x| x.0.clone()).collect();
    if s.nodes_vec != names {
        c.fail("C02.index.nodes", "nodes_vec", format!("nodes_vec {:?} vs public node list {:?}", s.nodes_vec, names));
        return;
    }
    let mut nm: Vec<(String, usize)> = names.iter().cloned().enumerate().map(|(i, x)| (x, i)).collect();
    nm.sort();
    if s.nodes_map != nm {
        c.fail("C02.index.nodes", "nodes_map", format!("nodes_map {:?} does not invert nodes_vec {:?}", s.nodes_map, names));
    }
    let rev: Vec<(usize, String)> = names.iter().cloned().enumerate().collect();
    if s.nodes_map_rev != rev {
        c.fail("C02.index.nodes", "nodes_map_rev", format!("nodes_map_rev {:?} does not match nodes_vec {:?}", s.nodes_map_rev, names));
    }
    if s.successors_vec.len() != n || s.predecessors_vec.len() != n {
        c.fail("C02.index.adjacency", "adjacency vec length", format!("successors_vec/predecessors_vec have {} / {} rows for {} nodes", s.successors_vec.len(), s.predecessors_vec.len(), n));
        return;
    }
    let pos = |x: &String| names.iter().position(|y| y == x);
    // name-keyed store: key == endpoints of every stored edge; undirected keys are name-ordered
    let mut by_pos_from_names: Vec<((usize, usize), Vec<(String, String, u64)>)> = vec![];
    for ((ku, kv), list) in &s.edges {
        if list.is_empty() {
            c.fail("C02.index.edges", "empty edge list", format!("edges[({:?},{:?})] is an empty list", ku, kv));
        }
        for (u, v, _) in list {
            if (u, v) != (ku, kv) {
                c.fail("C02.index.edges", "edges key vs edge", format!("edges[({:?},{:?})] holds an edge ({:?},{:?})", ku, kv, u, v));
            }
        }
        if !directed && ku > kv {
            c.fail("C02.index.edges", "edges key orientation", format!("undirected key ({:?},{:?}) is not name-ordered", ku, kv));
        }
        match (pos(ku), pos(kv)) {
            (Some(a), Some(b)) => {
                let k = if !directed && a > b { (b, a) } else { (a, b) };
                by_pos_from_names.push((k, list.iter().map(|(u, v, w)| (u.clone(), v.clone(), wbits(*w))).collect()));
            }
            _ => c.fail("C02.index.edges", "edges key not a node", format!("edges key ({:?},{:?}) names a node that does not exist", ku, kv)),
        }
    }
    by_pos_from_names.sort_by(|a, b| a.0.cmp(&b.0));
    let by_pos: Vec<((usize, usize), Vec<(String, String, u64)>)> = s.edges_map.iter().map(|(k, l)| (*k, l.iter().map(|(u, v, w)| (u.clone(), v.clone(), wbits(*w))).collect())).collect();
    if by_pos != by_pos_from_names {
        c.fail("C02.index.edges", "edges vs edges_map", format!("the name-keyed store translated to positions {:?} differs from the position-keyed store {:?}", by_pos_from_names, by_pos));
    }
    // adjacency by name / by position / vec all describe the stored edges
    let mut succ: Vec<BTreeSet<usize>> = vec![BTreeSet::new(); n];
    let mut pred: Vec<BTreeSet<usize>> = vec![BTreeSet::new(); n];
    for e in &m.edges {
        if let (Some(a), Some(b)) = (pos(&e.u), pos(&e.v)) {
            succ[a].insert(b);
            if directed {
                pred[b].insert(a);
            } else {
                succ[b].insert(a);
            }
        }
    }
    for i in 0..n {
        let name_set = |v: &Vec<(String, Vec<String>)>| -> BTreeSet<usize> { v.iter().find(|(k, _)| k == &names[i]).map(|(_, l)| l.iter().filter_map(|x| pos(x)).collect()).unwrap_or_default() };
        let idx_set = |v: &Vec<(usize, Vec<usize>)>| -> BTreeSet<usize> { v.iter().find(|(k, _)| *k == i).map(|(_, l)| l.iter().copied().collect()).unwrap_or_default() };
        let vec_set = |v: &Vec<Vec<(usize, f64)>>| -> BTreeSet<usize> { v[i].iter().map(|x| x.0).collect() };
        for (what, got, exp) in [
            ("successors", name_set(&s.successors), &succ[i]),
            ("successors_map", idx_set(&s.successors_map), &succ[i]),
            ("successors_vec", vec_set(&s.successors_vec), &succ[i]),
            ("predecessors", name_set(&s.predecessors), &pred[i]),
            ("predecessors_map", idx_set(&s.predecessors_map), &pred[i]),
            ("predecessors_vec", vec_set(&s.predecessors_vec), &pred[i]),
        ] {
            if &got != exp {
                c.fail("C02.index.adjacency", what, format!("{} of node {:?} (position {}) is {:?}, the stored edges give {:?}", what, names[i], i, got, exp));
            }
        }
    }
    c.cx.count("whitebox_checks");
}

impl Prop for C02Prop {
    fn id(&self) -> &'static str {
        "C02"
    }
    fn runs(&self, tier: Tier) -> u64 {
        match tier {
            Tier::Quick => 60_000,
            Tier::Thorough => 1_200_000,
        }
    }
    fn gen(&self, seed: u64, idx: u64, _tier: Tier) -> Case {
        let mut rng = Rng::new(seed, "config");
        let specs = Specs::from_index(idx as usize % 96);
        let mut case = Case::new("C02", seed, specs);
        {
            let mut hr = Rng::new(seed, "config.huge");
            if hr.chance(1, 3000) {
                // a graph of thousands of edges (strategy thresholds), then a short tail
                let regime = gen::regime_any(&mut hr, true);
                let mut wr = Rng::new(seed, "workload.huge");
                case.ops = gen::gen_huge_history_v(&mut wr, specs, regime, false, &[0, 0, 2]);
                case.params.put("source", crate::core::json::J::s("history loading thousands of edges"));
                case.envs = vec![Env { keying: if hr.chance(1, 2) { 0 } else { seed | 1 }, pool: if hr.chance(1, 8) { 1 } else { 2 + hr.below(15) }, sched: crate::core::rng::mix(seed, 78) }];
                return case;
            }
        }
        let o = gen::HistOpts { specs, max_ops: 24, regime: gen::regime_any(&mut rng, true), derived: rng.chance(1, 3), restart: true, names_min: 3, names_max: 6, dup_bias: 30, big: rng.chance(1, 500) };
        let mut wr = Rng::new(seed, "workload");
        case.ops = gen::gen_history(&mut wr, &o);
        case.envs = gen::envs(seed, 2);
        case
    }
    fn run_env(&self, case: &Case, _env: &Env, cx: &mut Ctx) {
        let arms = Arms { c02: true, ..Default::default() };
        if let Some((_g, m, _)) = lifecycle::drive(case, cx, &arms) {
            let parallel = m.specs.multi && m.edges.iter().enumerate().any(|(i, e)| m.edges[..i].iter().any(|f| m.joins(f, &e.u, &e.v)));
            let order_differs = {
                let n: Vec<&String> = m.nodes.iter().map(|n| &n.0).collect();
                n.windows(2).any(|w| w[0] > w[1])
            };
            if !m.edges.is_empty() && (parallel || order_differs) {
                cx.nt.push(crate::core::rng::mix(case.specs.index() as u64, lifecycle::ops_hash(&case.ops)));
            }
            if order_differs {
                cx.count("probe.name_order_differs_from_insertion_order");
            }
        }
    }
    fn cross(&self, _case: &Case, _results: &[EnvResult], _cx: &mut Ctx) {}
    fn rule(&self) -> String {
        "lifecycle histories (<= 24 ops, incl. derived-graph operations in 1/3 of the runs) stratified over all 96 GraphSpecs, under 2 hash keyings; after EVERY op every read API is queried for every ordered pair of the name universe plus two absent names, every node, random node sets, both adjacency maps, BFS, and compared with the answer derived from the node list and edge multiset; with the hook the 12 private indexes are compared with each other. distinct_nontrivial = distinct (specs, history) whose final graph has edges and either parallel edges or a name order different from the insertion order; one case in 3000 loads 2 100 - 12 500 edges (one to three batches or the constructor, same edge values re-submitted on multi-edge graphs) into 45-180 nodes and continues with a short tail (strategy thresholds); on universes of more than 80 names 600 ordered pairs per step are sampled (both orientations of stored edges and random pairs) instead of all pairs, and on universes of more than 300 names the per-node queries are asked for the 3 nodes of highest degree and 60 sampled names; the large histories come in variants: dense (45-180 nodes), a hub with 1 100 - 1 600 neighbours; in half of them a load of 260-420 edges into ANOTHER graph is rejected part-way on the same thread first (fault, then recovery, at scale); one node-list query per step names a node more than once".into()
    }
    fn assumptions(&self) -> Vec<String> {
        vec![
            "order inside hash-ordered results is not compared; only parallel edges of one pair have a specified order".into(),
            "get_predecessors_map on undirected graphs: accepted if empty or equal to the neighbour map".into(),
            "a call wrong for two reasons (absent name on the wrong kind of graph) may report either".into(),
        ]
    }
}
