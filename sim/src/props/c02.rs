use crate::core::case::*;
use crate::core::model::Model;
use crate::core::real::G;
use crate::runner::Ctx;
pub fn check_views(_i: usize, _g: &G, _m: &Model, _in_sync: bool, _case: &Case, _cx: &mut Ctx) {}
