//! C06 — closeness centrality equals its definition for every graph.
use super::algo::{self, AlgoGen};
use super::{Prop, Tier};
use crate::core::case::*;
use crate::core::rt;
use crate::gen::WeightRegime;
use crate::oracle::close_rel as close;
use crate::oracle::dist::DistOracle;
use crate::pool;
use crate::runner::Ctx;
use graphrs::algorithms::centrality::closeness::closeness_centrality;

pub struct C06Prop;
pub static C06: C06Prop = C06Prop;

impl Prop for C06Prop {
    fn id(&self) -> &'static str {
        "C06"
    }
    fn runs(&self, tier: Tier) -> u64 {
        match tier {
            Tier::Quick => 30_000,
            Tier::Thorough => 600_000,
        }
    }
    fn gen(&self, seed: u64, idx: u64, _tier: Tier) -> Case {
        AlgoGen {
            large_pct: 20,
            n_small: (0, 10),
            n_large: (21, 50),
            regimes: vec![WeightRegime::AllNan, WeightRegime::Dyadic, WeightRegime::SmallInt, WeightRegime::Nasty, WeightRegime::Tiny, WeightRegime::NearEqual, WeightRegime::MixedScale, WeightRegime::Subnormal],
            kinds: AlgoGen::all_kinds(),
            shapes: None,
            lifecycle_pct: 30,
            keyings: 1,
            boundary_per_mille: 0,
            huge_one_in: 2000,
            hub_one_in: 0,
        }
        .gen("C06", seed, idx)
    }
    fn run_env(&self, case: &Case, env: &Env, cx: &mut Ctx) {
        let b = match algo::build(case, cx) {
            Some(b) => b,
            None => return,
        };
        let (g, snap) = (&b.g, &b.snap);
        let n = snap.n();
        let budget = rt::budget(n, snap.edges.len());
        let mut modes = vec![false];
        if !snap.edges.is_empty() && snap.weighted() && algo::all_positive(snap) {
            modes.push(true);
        }
        let mut asym = false;
        for weighted in modes {
            let orc = DistOracle::new(snap, !weighted);
            if snap.directed && (0..n).any(|a| (0..n).any(|b| orc.d[a][b] != orc.d[b][a])) {
                asym = true;
            }
            for wf in [false, true] {
                let r = rt::call("closeness_centrality", budget, || pool::scoped(env.pool, || closeness_centrality(g, weighted, wf)));
                let got = match r {
                    Ok(Ok(m)) => m,
                    Ok(Err(e)) => {
                        cx.fail("C06.error", "closeness returned Err", format!("closeness_centrality(weighted={}, wf={}) failed: {:?}", weighted, wf, e.kind));
                        return;
                    }
                    Err(p) => {
                        cx.fail("C06.panic", "closeness panicked", format!("closeness_centrality(weighted={}, wf={}) panicked: {} [{}]", weighted, wf, p.0, case.specs.short()));
                        return;
                    }
                };
                cx.count("closeness_calls");
                if got.len() != n || !snap.names.iter().all(|x| got.contains_key(x)) {
                    cx.fail("C06.entries", "one entry per node", format!("{} entries for {} nodes", got.len(), n));
                    return;
                }
                let exp = orc.closeness(wf);
                for v in 0..n {
                    let x = got[&snap.names[v]];
                    if !close(x, exp[v]) {
                        let sig = format!("value {}{} {} {}", if snap.directed { "directed" } else { "undirected" }, if snap.multi { "+multi" } else { "" }, if weighted { "weighted" } else { "hop" }, if wf { "wf" } else { "plain" });
                        cx.fail("C06.value", &sig, format!("closeness({:?}) = {} but the definition (incoming distances) gives {} (weighted={}, wf_improved={}, n={}, pool={}) [{}]", snap.names[v], x, exp[v], weighted, wf, n, env.pool, case.specs.short()));
                        return;
                    }
                }
                if n > 20 && env.pool > 1 {
                    cx.count("probe.parallel_path_taken");
                }
            }
        }
        if asym {
            cx.count("probe.direction_asymmetric_distances");
        }
        if cx.viol.is_empty() && n >= 2 && n <= 60 && crate::core::rng::Rng::new(case.seed, "config.wrap").chance(1, 1500) {
            // counters that wrap: the same call again after exactly 2^8, 2^15, 2^16 (+-1) calls / searches on this thread
            let tiny = match crate::core::real::build(Specs::kind(snap.directed, false, false), &[Op::AddNodes(vec![("w".to_string(), None)])]) {
                Ok(t) => t,
                Err(_) => return,
            };
            let weighted = case.seed % 2 == 0 && !snap.edges.is_empty() && snap.weighted() && algo::all_positive(snap) && algo::comparable_scale(snap);
            algo::wrap_probe(
                cx,
                "C06",
                "closeness_centrality",
                n,
                |k| match rt::call("closeness_centrality", budget, || closeness_centrality(g, weighted, k % 2 == 0)) {
                    Ok(Ok(m)) => {
                        let mut v: Vec<(String, u64)> = m.into_iter().map(|(a, b)| (a, b.to_bits())).collect();
                        v.sort();
                        Some(format!("{:?}", v))
                    }
                    _ => None,
                },
                || {
                    let _ = rt::call("closeness_centrality(filler)", 1_000_000, || closeness_centrality(&tiny, false, false).is_ok());
                },
            );
        }
        if snap.edges.len() >= 2 {
            cx.nt.push(super::lifecycle::ops_hash(&case.ops));
        }
        cx.states.push(super::lifecycle::ops_hash(&case.ops));
    }
    fn rule(&self) -> String {
        "graphs of all 8 kinds (shapes incl. in/out stars, and lifecycle-built; n <= 10 or 21-50), hop counts or positive weights (dyadic, integer, decimal); closeness_centrality(weighted x wf_improved) under a simulated pool of 1-16 workers vs the definition from the incoming Floyd-Warshall distance columns at 1e-9, exactly one entry per node. distinct_nontrivial = distinct graphs with >= 2 edges; one case in 2000 is a dense graph (1-3 blocks, 60-300 nodes) with 2 100 - 12 500 stored edges under a pool of 2-16 workers (strategy thresholds); in a third of the cases a battery of valid unjudged calls runs first on a sibling graph (same names and edges, other node order), in a fifth the graph is queried on the same object before its last one to three operations are applied (DESIGN.md 0.2); subnormal weights (totals below f64::MIN_POSITIVE); one case in 1 500 repeats the call after exactly 2^8, 2^15, 2^16 (+-1) further calls / inner searches on the thread (counter wrap-around)".into()
    }
}
