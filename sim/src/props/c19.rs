//! C19 — the GraphML reader never panics: any input yields Ok(valid graph) or Err.
//! Fault enumeration over stored bytes: every case is one explicit (corrupted) document. The first block of
//! case indexes enumerates single-point corruptions of small fixed base documents exhaustively; the rest samples
//! generated documents with up to four faults.
use super::{Prop, Tier};
use crate::core::case::*;
use crate::core::json::J;
use crate::core::model::{Model, Out};
use crate::core::rng::Rng;
use crate::core::rt;
use crate::gen;
use crate::runner::Ctx;
use graphrs::readwrite::graphml;
use quick_xml::events::Event;
use quick_xml::Reader;

pub struct C19Prop;
pub static C19: C19Prop = C19Prop;

/// small fixed base documents whose single-point corruptions are enumerated exhaustively
const BASES: &[&str] = &[
    r#"<graphml><key id="weight" for="edge" attr.name="weight" attr.type="double"/><graph edgedefault="directed"><node id="a"/><node id="b"/><edge source="a" target="b"><data key="weight">1.5</data></edge></graph></graphml>"#,
    r#"<graphml xmlns="http://graphml.graphdrawing.org/xmlns"><key id="d0" for="edge" attr.name="weight" attr.type="double"/><graph edgedefault="undirected"><node id="x&amp;y"/><node id="z"></node><edge source="z" target="x&amp;y"><data key="d0">2</data></edge><edge source="z" target="z"/></graph></graphml>"#,
    r#"<?xml version="1.0" encoding="UTF-8"?><graphml><graph id="G" edgedefault="directed"><node id="n0"><data key="c">red</data></node><node id="n1"/><edge id="e0" source="n0" target="n1"></edge><edge source="n1" target="n0"><data key="weight">0.25</data></edge></graph></graphml>"#,
    r#"<graphml><key id='w' for='edge' attr.name='weight'/><graph edgedefault='undirected'><node id='é'/><node id=''/><edge source='é' target=''><data key='w'>-3e2</data></edge><!-- c --></graph></graphml>"#,
    // dense in multi-byte characters (every offset arithmetic on the raw bytes meets a char boundary somewhere)
    "<graphml><graph edgedefault=\"directed\"><node id=\"\u{e9}\u{e9}\u{65e5}\u{672c}\u{1F600}\u{e9}\u{e9}\u{e9}\u{e9}\u{e9}\u{e9}\"/><node id=\"\u{3b1}\u{3b2}\u{3b3}\"/><edge source=\"\u{3b1}\u{3b2}\u{3b3}\" target=\"\u{e9}\u{e9}\u{65e5}\u{672c}\u{1F600}\u{e9}\u{e9}\u{e9}\u{e9}\u{e9}\u{e9}\"><data key=\"weight\">\u{e9}1</data></edge></graph></graphml>",
];

/// a long weight text mixing ASCII and multi-byte characters (a number with a unit, a sentence): any byte offset
/// a reader computes on it may fall inside a character
fn long_weight_text(rng: &mut Rng) -> String {
    let mut s = String::new();
    if rng.chance(1, 4) {
        // nothing but digits, beyond every integer width (and, from 310 digits, beyond the largest float)
        if rng.chance(1, 4) {
            s.push(*rng.pick(&['-', '+']));
        }
        for _ in 0..*rng.pick(&[19usize, 20, 21, 25, 39, 40, 80, 308, 309, 310, 400]) {
            s.push((b'0' + rng.below(10) as u8) as char);
        }
        return s;
    }
    if rng.chance(1, 2) {
        s.push_str(*rng.pick(&["0.000", "12", "1e", "-", "3.14159265358979", "0.1"]));
    }
    let target = rng.range(20, 140);
    while s.len() < target {
        match rng.below(6) {
            0 => s.push('\u{e9}'),
            1 => s.push('\u{b5}'),
            2 => s.push('\u{65e5}'),
            3 => s.push('\u{1F600}'),
            4 => s.push(' '),
            _ => s.push((b'0' + rng.below(10) as u8) as char),
        }
    }
    s
}

/// documents on which the reader fails after it has taken some state from them (a weight key, a graph kind,
/// nodes, an open edge): read before the judged document on the same thread in a quarter of the sampled cases
fn failing_prelude(rng: &mut Rng) -> String {
    match rng.below(6) {
        0 => {
            let b = BASES[rng.below(BASES.len())];
            let mut cut = rng.range(b.len() / 2, b.len() - 1);
            while !b.is_char_boundary(cut) {
                cut -= 1;
            }
            b[..cut].to_string()
        }
        1 => "<graphml><key id=\"k9\" for=\"edge\" attr.name=\"weight\"/><graph edgedefault=\"undirected\"><node id=\"p\"/><node id=\"q\"/><edge source=\"p\" target=\"q\"><data key=\"k9\">4</data></wrong></graph></graphml>".to_string(),
        2 => "<graphml><key id=\"\" for=\"edge\" attr.name=\"weight\"/><graph edgedefault=\"directed\"><node id=\"p\"/><edge source=\"p\" target=\"p\"><data key=\"\">x&unknown;</data></edge>".to_string(),
        3 => "<graphml><graph edgedefault=\"directed\"><node id=\"a\"/><node id=\"b\"/><edge source=\"a\" target=\"b\"><data key=\"weight\">not a number</data></edge></graph></graphml>".to_string(),
        4 => "<graphml><graph edgedefault=\"undirected\"><node id=\"a\"><edge source=\"a\" target=\"a\"></node></graph>".to_string(),
        _ => "<graphml><key id=\"w2\" attr.name=\"weight\" for=\"edge\"/><graph edgedefault=\"directed\"><node id=\"n\"/><edge source=\"n\"".to_string(),
    }
}

#[derive(Clone, Copy, Debug, PartialEq)]
enum Fault {
    Truncate,
    DeleteByte,
    DupByte,
    FlipBit,
    ReplaceByte,
}
const SINGLE: &[Fault] = &[Fault::Truncate, Fault::DeleteByte, Fault::DupByte, Fault::FlipBit, Fault::ReplaceByte];
const REPL: &[u8] = b"<>&\"'=/ ";

fn variants(f: Fault, len: usize) -> usize {
    match f {
        Fault::Truncate => len + 1,
        Fault::DeleteByte | Fault::DupByte => len,
        Fault::FlipBit => len * 8,
        Fault::ReplaceByte => len * REPL.len(),
    }
}

fn apply(f: Fault, doc: &[u8], v: usize) -> Vec<u8> {
    let mut d = doc.to_vec();
    match f {
        Fault::Truncate => d.truncate(v),
        Fault::DeleteByte => {
            d.remove(v);
        }
        Fault::DupByte => d.insert(v, doc[v]),
        Fault::FlipBit => d[v / 8] ^= 1 << (v % 8),
        Fault::ReplaceByte => d[v / REPL.len()] = REPL[v % REPL.len()],
    }
    d
}

/// the reader takes &str: re-validate at char level
fn to_str(b: Vec<u8>) -> String {
    String::from_utf8_lossy(&b).into_owned()
}

fn exhaustive_block() -> usize {
    BASES.iter().map(|b| SINGLE.iter().map(|f| variants(*f, b.len())).sum::<usize>()).sum()
}

fn nth_exhaustive(mut i: usize) -> (usize, Fault, usize) {
    for (bi, b) in BASES.iter().enumerate() {
        for f in SINGLE {
            let k = variants(*f, b.len());
            if i < k {
                return (bi, *f, i);
            }
            i -= k;
        }
    }
    (0, Fault::Truncate, 0)
}

// ---- generated documents ----------------------------------------------------------------------

const NAMES: &[&str] = &["a", "b", "n1", "n10", "x&amp;y", "", " ", "é", "&lt;", "q\"", "&#65;", "n 2", "a_name_that_is_longer_than_sixty_four_characters_0123456789_0123456789_0123456789", "R&amp;D", "&#38;"];
const WEIGHT_TEXTS: &[&str] = &["1", "1.5", "-2", "0", "1e3", "abc", "", " ", "\n   ", " 1", "1 ", "1e999", "nan", "NaN", "inf", "-inf", "0x10", "1,5", "+1", ".5", "5.", "1e-400", "１", "4294967296", "9223372036854775807", "9223372036854775808", "-9223372036854775809", "18446744073709551615", "18446744073709551616", "340282366920938463463374607431768211456", "100000000000000000000000000000000000000000", "0000000000000000000000000000001", "-0", "-0.0"];

fn grammar_doc(rng: &mut Rng) -> String {
    let q = if rng.chance(1, 5) { '\'' } else { '"' };
    let at = |k: &str, v: &str| format!(" {}={}{}{}", k, q, v, q);
    let mut s = String::new();
    if rng.chance(1, 4) {
        s.push_str("<?xml version=\"1.0\" encoding=\"UTF-8\"?>");
    }
    if rng.chance(1, 10) {
        s.push('\u{feff}');
    }
    if rng.chance(1, 8) {
        s.push_str("<!DOCTYPE graphml>");
    }
    let prefix = if rng.chance(1, 12) { "g:" } else { "" };
    s.push_str(&format!("<{}graphml{}>", prefix, if rng.chance(1, 2) { " xmlns=\"http://graphml.graphdrawing.org/xmlns\"" } else { "" }));
    let wkey = rng.pick(&["weight", "d0", "w", "k1"]).to_string();
    let two_ids = rng.chance(1, 6);
    if two_ids {
        // the edge weight declared under two different ids, both declarations well-formed (the last one governs)
        s.push_str(&format!("<{}key id={}{}{} for={}edge{} attr.name={}weight{}/>", prefix, q, "wA", q, q, q, q, q));
        if rng.chance(2, 3) {
            s.push_str(&format!("<{}key id={}{}{} for={}edge{} attr.name={}weight{}/>", prefix, q, wkey, q, q, q, q, q));
        }
    }
    for _ in 0..rng.range(0, 2) {
        let mut k = format!("<{}key", prefix);
        if rng.chance(9, 10) {
            k.push_str(&at("id", if rng.chance(3, 4) { &wkey } else { "other" }));
        }
        if rng.chance(9, 10) {
            k.push_str(&at("for", *rng.pick(&["edge", "edge", "node", "graph", "all"])));
        }
        if rng.chance(9, 10) {
            k.push_str(&at("attr.name", *rng.pick(&["weight", "weight", "color", "Weight"])));
        }
        if rng.chance(1, 2) {
            k.push_str(&at("attr.type", "double"));
        }
        if rng.chance(1, 2) {
            k.push_str("/>");
        } else {
            k.push_str(&format!("><default>1</default></{}key>", prefix));
        }
        s.push_str(&k);
    }
    let ngraphs = if rng.chance(1, 10) { 2 } else { 1 };
    for _ in 0..ngraphs {
        let mut gtag = format!("<{}graph", prefix);
        if rng.chance(19, 20) {
            gtag.push_str(&at("edgedefault", *rng.pick(&["directed", "undirected", "directed", "undirected", "Directed", ""])));
        }
        if rng.chance(1, 8) {
            // the optional GraphML parse hints, with honest, absurd and non-numeric values
            for k in ["parse.nodes", "parse.edges", "parse.maxindegree", "parse.order"] {
                if rng.chance(1, 2) {
                    gtag.push_str(&at(k, *rng.pick(&["3", "0", "18446744073709551615", "1152921504606846976", "-1", "99999999999999999999999", "nodesfirst", "4294967296"])));
                }
            }
        }
        if rng.chance(1, 20) {
            s.push_str(&gtag);
            s.push_str("/>");
            continue;
        }
        gtag.push('>');
        s.push_str(&gtag);
        let k = rng.range(0, 5);
        let ids: Vec<&str> = (0..k).map(|_| *rng.pick(NAMES)).collect();
        let mut items: Vec<String> = vec![];
        for id in &ids {
            let mut n = format!("<{}node", prefix);
            if rng.chance(19, 20) {
                n.push_str(&at("id", id));
            }
            if rng.chance(1, 15) {
                n.push_str(&at("id", "dup"));
            }
            match rng.below(4) {
                0 => n.push_str(&format!("></{}node>", prefix)),
                1 => n.push_str(&format!("><{}data key={}{}{}>1</{}data></{}node>", prefix, q, wkey, q, prefix, prefix)),
                _ => n.push_str("/>"),
            }
            items.push(n);
        }
        for _ in 0..rng.range(0, 6) {
            let mut e = format!("<{}edge", prefix);
            let pool: Vec<&str> = if ids.is_empty() || rng.chance(1, 8) { NAMES.to_vec() } else { ids.clone() };
            if rng.chance(19, 20) {
                e.push_str(&at("source", *rng.pick(&pool)));
            }
            if rng.chance(19, 20) {
                e.push_str(&at("target", *rng.pick(&pool)));
            }
            if rng.chance(1, 10) {
                e.push_str(&at("directed", "false"));
            }
            match rng.below(5) {
                0 => e.push_str("/>"),
                1 => e.push_str(&format!("></{}edge>", prefix)),
                _ => {
                    e.push('>');
                    let key = if two_ids && rng.chance(1, 3) {
                        "wA"
                    } else if rng.chance(5, 6) {
                        wkey.as_str()
                    } else {
                        "weight"
                    };
                    let long = long_weight_text(rng);
                    let txt: &str = if rng.chance(1, 12) {
                        &long
                    } else if rng.chance(2, 3) {
                        *rng.pick(&WEIGHT_TEXTS[..6])
                    } else {
                        *rng.pick(WEIGHT_TEXTS)
                    };
                    match rng.below(8) {
                        0 => e.push_str(&format!("<{}data key={}{}{}/>", prefix, q, key, q)),
                        1 => e.push_str(&format!("<{}data key={}{}{}><![CDATA[{}]]></{}data>", prefix, q, key, q, txt, prefix)),
                        2 => e.push_str(&format!("<{}data key={}{}{}><b>{}</b></{}data>", prefix, q, key, q, txt, prefix)),
                        3 => e.push_str(&format!("<{}data>{}</{}data>", prefix, txt, prefix)),
                        _ => e.push_str(&format!("<{}data key={}{}{}>{}</{}data>", prefix, q, key, q, txt, prefix)),
                    }
                    e.push_str(&format!("</{}edge>", prefix));
                }
            }
            items.push(e);
        }
        if rng.chance(1, 6) {
            items.push("<!-- <node id=\"ghost\"/> -->".into());
        }
        if rng.chance(1, 10) {
            items.push(format!("<{}data key={}{}{}>7</{}data>", prefix, q, wkey, q, prefix));
        }
        if rng.chance(1, 10) {
            items.push("<?pi x?>".into());
        }
        if rng.chance(1, 10) {
            items.push("&bogus;".into());
        }
        if rng.chance(1, 4) {
            rng.shuffle(&mut items);
        }
        for it in items {
            s.push_str(&it);
        }
        s.push_str(&format!("</{}graph>", prefix));
    }
    s.push_str(&format!("</{}graphml>", prefix));
    s
}

/// element-level and entity-level faults on a document (by text surgery on '<...>' spans)
fn structural_fault(rng: &mut Rng, doc: &str) -> String {
    let spans: Vec<(usize, usize)> = {
        let b = doc.as_bytes();
        let mut v = vec![];
        let mut i = 0;
        while i < b.len() {
            if b[i] == b'<' {
                if let Some(j) = b[i..].iter().position(|c| *c == b'>') {
                    v.push((i, i + j + 1));
                    i += j + 1;
                    continue;
                }
            }
            i += 1;
        }
        v
    };
    if spans.is_empty() {
        return format!("{}<", doc);
    }
    let (a, b) = *rng.pick(&spans);
    match rng.below(9) {
        0 => format!("{}{}", &doc[..a], &doc[b..]),            // delete an element tag
        1 => format!("{}{}{}", &doc[..b], &doc[a..b], &doc[b..]), // duplicate a tag
        2 => {
            // swap two tags
            let (c, d) = *rng.pick(&spans);
            if b <= c {
                format!("{}{}{}{}{}", &doc[..a], &doc[c..d], &doc[b..c], &doc[a..b], &doc[d..])
            } else {
                doc.to_string()
            }
        }
        3 => {
            // duplicate an attribute inside the tag
            let tag = &doc[a..b];
            match tag.find(' ') {
                Some(sp) => {
                    let rest = &tag[sp..tag.len() - 1];
                    let attr_end = rest[1..].find(' ').map(|x| x + 1).unwrap_or(rest.trim_end_matches('/').len());
                    format!("{}{}{}{}", &doc[..a + sp], &rest[..attr_end], &tag[sp..], &doc[b..])
                }
                None => doc.to_string(),
            }
        }
        4 => {
            // delete an attribute
            let tag = &doc[a..b];
            match tag.find(' ') {
                Some(sp) => {
                    let rest = &tag[sp + 1..];
                    let end = rest.find(' ').map(|x| x + 1).unwrap_or_else(|| rest.trim_end_matches('>').trim_end_matches('/').len());
                    format!("{}{}{}", &doc[..a + sp + 1], &rest[end..], &doc[b..])
                }
                None => doc.to_string(),
            }
        }
        5 => {
            let ent = *rng.pick(&["&foo;", "&#0;", "&#x110000;", "&amp", "&;", "&#xD800;", "&#99999999999;", "&lt;&gt;"]);
            // inject into an attribute value if there is one, else as text
            match doc[a..b].find('"') {
                Some(qp) => format!("{}{}{}", &doc[..a + qp + 1], ent, &doc[a + qp + 1..]),
                None => format!("{}{}{}", &doc[..b], ent, &doc[b..]),
            }
        }
        8 => {
            // lengthen an attribute value (70 / 300 / 5000 characters)
            match doc[a..b].find('"') {
                Some(qp) => format!("{}{}{}", &doc[..a + qp + 1], "L".repeat(*rng.pick(&[70usize, 300, 5000])), &doc[a + qp + 1..]),
                None => doc.to_string(),
            }
        }
        6 => {
            // replace a weight text
            match doc.find("</data>") {
                Some(e) => {
                    let st = doc[..e].rfind('>').map(|x| x + 1).unwrap_or(e);
                    if rng.chance(1, 5) {
                        format!("{}{}{}", &doc[..st], long_weight_text(rng), &doc[e..])
                    } else {
                        format!("{}{}{}", &doc[..st], rng.pick(WEIGHT_TEXTS), &doc[e..])
                    }
                }
                None => doc.to_string(),
            }
        }
        _ => {
            // splice: second half of another generated document
            let other = grammar_doc(rng);
            let cut = a.min(doc.len());
            let oc = other.len() / 2;
            let oc = (0..=oc).rev().find(|i| other.is_char_boundary(*i)).unwrap_or(0);
            format!("{}{}", &doc[..cut], &other[oc..])
        }
    }
}

/// a document written by the real writer from a random small graph
fn written_doc(rng: &mut Rng) -> String {
    let (d, m, l) = gen::kind_from(rng.below(8));
    let o = gen::GraphOpts { directed: d, multi: m, self_loops: l, n_min: 0, n_max: 6, regime: *rng.pick(&[gen::WeightRegime::AllNan, gen::WeightRegime::Dyadic, gen::WeightRegime::Mixed, gen::WeightRegime::Nasty]), shape: None, sprinkle: true };
    let (specs, ops) = gen::gen_graph(rng, &o);
    match crate::core::real::build(specs, &ops) {
        Ok(g) => graphml::write_graphml_string(&g).unwrap_or_default(),
        Err(_) => String::new(),
    }
}

// ---- the independent walk over the same bytes ---------------------------------------------------

#[derive(Default, Debug)]
struct Walk {
    /// the walk itself hit a parser error: the reader must return Err too (or the structure is not comparable)
    parse_error: bool,
    ambiguous: bool,
    declared: Vec<String>,
    nodes: Vec<String>,
    edges: Vec<(String, String)>,
    /// Some(weights per edge) when every weight <data> is well placed and parses
    weights: Option<Vec<u64>>,
    missing_required_attr: bool,
}

fn attrs_of(e: &quick_xml::events::BytesStart, w: &mut Walk) -> Vec<(String, String)> {
    let mut out = vec![];
    for a in e.attributes() {
        match a {
            Ok(a) => {
                let key = String::from_utf8_lossy(a.key.as_ref()).to_string();
                if key.contains(':') {
                    let local = key.rsplit(':').next().unwrap_or("");
                    if ["id", "source", "target", "edgedefault", "key", "for", "attr.name"].contains(&local) {
                        w.ambiguous = true;
                    }
                }
                match a.unescape_value() {
                    Ok(v) => out.push((key, v.into_owned())),
                    Err(_) => {
                        w.parse_error = true;
                    }
                }
            }
            Err(_) => {
                w.parse_error = true;
                break;
            }
        }
    }
    out
}

fn walk(doc: &str) -> Walk {
    let mut w = Walk::default();
    let mut rd = Reader::from_str(doc);
    let mut wkey = "weight".to_string();
    let mut stack: Vec<String> = vec![];
    let mut weights: Vec<u64> = vec![];
    let mut weights_ok = true;
    // state for "<data key=wkey> directly inside <edge>"
    let mut in_weight_data = false;
    let mut weight_text: Option<String> = None;
    let mut edge_weight_seen = false;
    loop {
        match rd.read_event() {
            Ok(Event::Eof) => break,
            Err(_) => {
                w.parse_error = true;
                break;
            }
            Ok(ev) => {
                let (is_start, is_empty) = (matches!(ev, Event::Start(_)), matches!(ev, Event::Empty(_)));
                match ev {
                    Event::Start(ref e) | Event::Empty(ref e) => {
                        let name = String::from_utf8_lossy(e.name().as_ref()).to_string();
                        if name.contains(':') {
                            let local = name.rsplit(':').next().unwrap_or("");
                            if ["node", "edge", "graph", "key", "data"].contains(&local) {
                                w.ambiguous = true;
                            }
                        }
                        let attrs = attrs_of(e, &mut w);
                        let get = |k: &str| -> Option<String> {
                            let v: Vec<&(String, String)> = attrs.iter().filter(|a| a.0 == k).collect();
                            v.last().map(|a| a.1.clone())
                        };
                        match name.as_str() {
                            "graph" => match get("edgedefault") {
                                Some(v) => w.declared.push(v),
                                None => w.missing_required_attr = true,
                            },
                            "node" => match get("id") {
                                Some(id) => w.nodes.push(id),
                                None => w.missing_required_attr = true,
                            },
                            "edge" => {
                                match (get("source"), get("target")) {
                                    (Some(s), Some(t)) => {
                                        w.edges.push((s, t));
                                        weights.push(NAN_BITS);
                                        edge_weight_seen = false;
                                    }
                                    _ => w.missing_required_attr = true,
                                }
                                if get("directed").is_some() {
                                    w.ambiguous = true; // per-edge direction is not modelled by graphrs
                                }
                            }
                            "key" => {
                                if get("attr.name").as_deref() == Some("weight") {
                                    match (get("for"), get("id")) {
                                        (Some(f), Some(id)) => {
                                            if f == "edge" {
                                                if !w.edges.is_empty() {
                                                    weights_ok = false; // key declared after edges: which data it governs is unclear
                                                }
                                                wkey = id;
                                            }
                                        }
                                        _ => {
                                            weights_ok = false;
                                        }
                                    }
                                }
                            }
                            "data" => {
                                if get("key").as_deref() == Some(wkey.as_str()) {
                                    let direct_child_of_edge = stack.last().map(|s| s == "edge").unwrap_or(false);
                                    if !direct_child_of_edge || is_empty || edge_weight_seen {
                                        weights_ok = false;
                                    } else {
                                        in_weight_data = true;
                                        weight_text = None;
                                        edge_weight_seen = true;
                                    }
                                }
                            }
                            _ => {}
                        }
                        // weights are only compared in "clean" documents: nothing but <data> inside an <edge>
                        if name != "data" && stack.iter().any(|s| s == "edge") {
                            weights_ok = false;
                        }
                        if in_weight_data && name != "data" {
                            weights_ok = false;
                        }
                        if is_start {
                            stack.push(name);
                        }
                        let _ = is_empty;
                    }
                    Event::End(ref e) => {
                        let name = String::from_utf8_lossy(e.name().as_ref()).to_string();
                        if name == "data" && in_weight_data {
                            in_weight_data = false;
                            match weight_text.take().and_then(|t| if t.contains('&') { None } else { t.parse::<f64>().ok() }) {
                                Some(x) => {
                                    if let Some(l) = weights.last_mut() {
                                        *l = wbits(x);
                                    }
                                }
                                None => weights_ok = false,
                            }
                        }
                        stack.pop();
                    }
                    Event::Text(ref t) => {
                        if in_weight_data {
                            if weight_text.is_some() {
                                weights_ok = false;
                            }
                            weight_text = Some(String::from_utf8_lossy(t.as_ref()).to_string());
                        }
                    }
                    Event::CData(_) => {
                        if in_weight_data {
                            weights_ok = false;
                        }
                    }
                    _ => {}
                }
            }
        }
    }
    if in_weight_data {
        weights_ok = false;
    }
    w.weights = if weights_ok { Some(weights) } else { None };
    w
}

impl Prop for C19Prop {
    fn id(&self) -> &'static str {
        "C19"
    }
    fn level(&self) -> &'static str {
        "fault_enumeration"
    }
    fn runs(&self, tier: Tier) -> u64 {
        exhaustive_block() as u64
            + match tier {
                Tier::Quick => 60_000,
                Tier::Thorough => 2_000_000,
            }
    }
    fn gen(&self, seed: u64, idx: u64, _tier: Tier) -> Case {
        let mut rng = Rng::new(seed, "workload");
        let specs = match idx % 3 {
            0 => Specs::kind(true, true, true),
            1 => Specs { directed: true, multi: false, self_loops: false, dedupe: Dedupe::Error, missing: Missing::Error, slf: Slf::Error },
            _ => Specs::from_index(rng.below(96)),
        };
        let mut case = Case::new("C19", seed, specs);
        let ex = exhaustive_block() as u64;
        let (doc, faults): (String, Vec<String>) = if idx < ex {
            let (bi, f, v) = nth_exhaustive(idx as usize);
            case.params.put("exhaustive_base", J::U(bi as u64));
            (to_str(apply(f, BASES[bi].as_bytes(), v)), vec![format!("{:?}@{}", f, v)])
        } else if (idx - ex) % 997 == 0 {
            // resource bombs: deep nesting and a huge attribute
            match ((idx - ex) / 997) % 3 {
                0 => ("<graphml><graph edgedefault=\"directed\">".to_string() + &"<node id=\"a\">".repeat(100_000), vec!["ResourceBomb@deep nesting 1e5".into()]),
                1 => (format!("<graphml><graph edgedefault=\"directed\"><node id=\"{}\"/></graph></graphml>", "x".repeat(10_000_000)), vec!["ResourceBomb@10 MB attribute".into()]),
                _ => ("<graphml><graph edgedefault=\"directed\">".to_string() + &"<a>".repeat(50_000) + &"</a>".repeat(50_000) + "</graph></graphml>", vec!["ResourceBomb@deep balanced nesting 5e4".into()]),
            }
        } else {
            let mut doc = match rng.below(10) {
                0..=2 => written_doc(&mut rng),
                3 => BASES[rng.below(BASES.len())].to_string(),
                _ => grammar_doc(&mut rng),
            };
            let k = *rng.pick(&[0usize, 1, 1, 1, 2, 2, 3, 4]);
            let mut faults = vec![];
            for _ in 0..k {
                if doc.is_empty() {
                    break;
                }
                if rng.chance(1, 2) {
                    let f = *rng.pick(SINGLE);
                    let nv = variants(f, doc.len());
                    if nv == 0 {
                        continue;
                    }
                    let v = rng.below(nv);
                    doc = to_str(apply(f, doc.as_bytes(), v));
                    faults.push(format!("{:?}@{}", f, v));
                } else {
                    doc = structural_fault(&mut rng, &doc);
                    faults.push("Structural@".into());
                }
            }
            if rng.chance(1, 4) {
                case.params.put("prelude_doc", J::s(&failing_prelude(&mut rng)));
                faults.push("FailedReadBefore@same thread".into());
            }
            (doc, faults)
        };
        case.params.put("doc", J::s(&doc));
        case.params.put("faults", J::strs(&faults));
        case.envs = vec![Env { keying: if idx % 2 == 0 { 0 } else { seed | 1 }, pool: 1, sched: 0 }];
        case
    }
    fn hang_sig(&self, _case: &Case, label: &str) -> String {
        format!("{} does not return", label)
    }
    fn run_env(&self, case: &Case, _env: &Env, cx: &mut Ctx) {
        let doc = case.p_str("doc").unwrap_or("").to_string();
        let specs = case.specs;
        let faults = case.p_strs("faults").unwrap_or_default();
        for f in &faults {
            cx.count(&format!("fault.{}", f.split('@').next().unwrap_or("other")));
        }
        cx.count(&format!("faults_per_document.{}", faults.len()));
        if case.p_u64("exhaustive_base").is_some() {
            cx.count("exhaustive_single_point_cases");
        }
        cx.ev(crate::core::rng::hash_str(&doc));
        let budget = 2_000_000 + 200 * doc.len() as u64;
        if let Some(pre) = case.p_str("prelude_doc") {
            // fault, then recovery: a read that fails, on this thread, before the judged one
            let pre = pre.to_string();
            match rt::call("read_graphml_string(prelude)", 2_000_000 + 200 * pre.len() as u64, || graphml::read_graphml_string(&pre, specs.to_real()).is_ok()) {
                Err(p) => {
                    let site = p.0.rsplit(" @ ").next().unwrap_or("").to_string();
                    cx.fail("C19.panic", &format!("read_graphml_string panicked at {}", rt::strip_repo(&site)), format!("read_graphml_string panicked: {}; document: {:?}", p.0, pre));
                    return;
                }
                Ok(ok) => cx.count(if ok { "prelude.read_ok" } else { "prelude.read_failed" }),
            }
        }
        let r = rt::call("read_graphml_string", budget, || graphml::read_graphml_string(&doc, specs.to_real()));
        let g = match r {
            Err(p) => {
                // where it panicked identifies the defect
                let site = p.0.rsplit(" @ ").next().unwrap_or("").to_string();
                cx.fail("C19.panic", &format!("read_graphml_string panicked at {}", rt::strip_repo(&site)), format!("read_graphml_string panicked: {}; document: {:?}", p.0, doc.chars().take(1500).collect::<String>()));
                return;
            }
            Ok(Err(_)) => {
                cx.count("reader.Err");
                cx.states.push(crate::core::rng::hash_str(&doc));
                return;
            }
            Ok(Ok(g)) => g,
        };
        cx.count("reader.Ok");
        // the independent walk over the same bytes
        let w = walk(&doc);
        if w.parse_error {
            // quick-xml itself reports an error somewhere in this document, yet the reader returned a graph:
            // the reader may stop earlier or later than the walk, so the structure is not comparable
            cx.count("ok_but_walk_hit_parse_error");
            return;
        }
        if w.ambiguous {
            cx.count("skipped.ambiguous_namespaces");
            return;
        }
        if w.missing_required_attr {
            cx.fail("C19.accepted_malformed", "Ok although a node/edge/graph element lacks a required attribute", format!("the reader returned a graph although an element lacks its required attribute; document: {:?}", doc.chars().take(1500).collect::<String>()));
            return;
        }
        // directedness the document declares
        let mut decl: Vec<bool> = vec![];
        for d in &w.declared {
            match d.as_str() {
                "directed" => decl.push(true),
                "undirected" => decl.push(false),
                _ => {
                    cx.fail("C19.accepted_malformed", "Ok although edgedefault is invalid", format!("the reader returned a graph although edgedefault={:?}; document: {:?}", d, doc.chars().take(800).collect::<String>()));
                    return;
                }
            }
        }
        decl.dedup();
        let directed = g.specs.directed;
        if decl.len() == 1 && decl[0] != directed {
            cx.fail("C19.directedness", &format!("document declares {} but the graph is {}", if decl[0] { "directed" } else { "undirected" }, if directed { "directed" } else { "undirected" }), format!("the document declares edgedefault={} but the returned graph has directed={}; document: {:?}", w.declared[0], directed, doc.chars().take(800).collect::<String>()));
            return;
        }
        if decl.len() > 1 {
            cx.count("skipped.conflicting_edgedefault");
        }
        // nodes and edges through the C01 model with the supplied specs
        let mut m = Model::new(Specs { directed, ..specs });
        for n in &w.nodes {
            m.add_node(&(n.clone(), None));
        }
        let mut rejected = false;
        let weights = w.weights.clone();
        for (i, (s, t)) in w.edges.iter().enumerate() {
            let wt = weights.as_ref().map(|v| v[i]).unwrap_or(NAN_BITS);
            let e = m.add_edge(&E { u: s.clone(), v: t.clone(), w: wt, attr: None });
            if e.is_err() {
                rejected = true;
                break;
            }
            if !e.accepts(Out::Ok) {
                rejected = true;
                break;
            }
        }
        if rejected {
            cx.fail("C19.graph_mismatch", "Ok although the specs reject an edge of the document", format!("the reader returned a graph although the supplied specs [{}] reject one of the document's edges {:?} (nodes {:?}); document: {:?}", specs.short(), w.edges, w.nodes, doc.chars().take(800).collect::<String>()));
            return;
        }
        let names: Vec<String> = g.get_all_node_names().into_iter().cloned().collect();
        let exp_names: Vec<String> = m.nodes.iter().map(|n| n.0.clone()).collect();
        let canon = |v: Vec<(String, String, u64)>| {
            let mut v: Vec<(String, String, u64)> = v.into_iter().map(|(a, b, w)| if !directed && a > b { (b, a, w) } else { (a, b, w) }).collect();
            v.sort();
            v
        };
        let use_w = weights.is_some();
        let got = canon(g.get_all_edges().iter().map(|e| (e.u.clone(), e.v.clone(), if use_w { wbits(e.weight) } else { 0 })).collect());
        let exp = canon(m.edges.iter().map(|e| (e.u.clone(), e.v.clone(), if use_w { e.w } else { 0 })).collect());
        if names != exp_names || got != exp {
            let what = if names != exp_names {
                "nodes"
            } else if got.iter().map(|e| (&e.0, &e.1)).collect::<Vec<_>>() != exp.iter().map(|e| (&e.0, &e.1)).collect::<Vec<_>>() {
                "edges"
            } else {
                "weights"
            };
            cx.fail("C19.graph_mismatch", &format!("returned graph differs from the document's elements: {}", what), format!("returned nodes {:?} edges {:?}; the document's node / edge elements under specs [{}] give nodes {:?} edges {:?} (weights compared: {}); document: {:?}", names, got, specs.short(), exp_names, exp, use_w, doc.chars().take(1200).collect::<String>()));
            return;
        }
        cx.count(if use_w { "ok_graph_checked_with_weights" } else { "ok_graph_checked_structure_only" });
        cx.states.push(crate::core::rng::hash_str(&doc));
        cx.nt.push(crate::core::rng::hash_str(&doc));
    }
    fn shrink(&self, case: &Case) -> Vec<Case> {
        // ddmin over the document: drop chunks (char-boundary aware), halving sizes
        let doc = case.p_str("doc").unwrap_or("").to_string();
        let chars: Vec<char> = doc.chars().collect();
        let mut out = vec![];
        let n = chars.len();
        if n == 0 {
            return out;
        }
        let mut sizes = vec![];
        let mut s = n / 2;
        while s >= 1 {
            sizes.push(s);
            s /= 2;
        }
        for size in sizes.into_iter().take(12) {
            let mut i = 0;
            let mut produced = 0;
            while i < n && produced < 40 {
                let hi = (i + size).min(n);
                let d: String = chars[..i].iter().chain(chars[hi..].iter()).collect();
                let mut c = case.clone();
                c.params.put("doc", J::s(&d));
                c.params.put("faults", J::strs(&["minimised".to_string()]));
                out.push(c);
                produced += 1;
                i += size;
            }
        }
        out
    }
    fn rule(&self) -> String {
        format!("every case is one explicit document passed to read_graphml_string under one of 3 specs. Case indexes 0..{} enumerate EXHAUSTIVELY every single-point corruption (truncation at every byte, deletion / duplication of every byte, every single-bit flip, every byte replaced by each of <>&\"'=/ and space) of {} fixed base documents; the remaining cases sample documents written by the real writer, the fixed bases and grammar-generated near-GraphML (keys with/without for/id/attr.name, data in node/edge/graph, empty vs start-end elements, comments, CDATA, PIs, DOCTYPE, BOM, prefixes, single quotes, nested/second graphs, odd weight texts) with 0-4 faults (byte-level as above; structural: delete/duplicate/swap a tag, duplicate/delete an attribute, inject entities, replace a weight text - also by 20-140 bytes of mixed ASCII / multi-byte text, by numerals at the boundaries of every integer width (2^32 .. 2^128) and by 19-400 random digits -, splice two documents; in a quarter of the sampled cases a document on which the reader fails after taking state from it - a weight key, a graph kind, an open edge - is read on the same thread first), plus resource bombs (1e5-deep nesting, 10 MB attribute). Oracle: the call returns (no unwind, no worker death, within the step budget 2e6 + 200 per byte); if Ok(g): an independent quick-xml walk over the same bytes gives declared directedness, node ids and (source,target) list, which fed through the C01 model with the supplied specs must give exactly g's nodes and edges (weights when every weight <data> is a direct child of an <edge>). distinct_nontrivial = distinct documents for which the reader returned a graph that was compared; a sixth of the grammar documents declare the edge weight under two ids", exhaustive_block(), BASES.len())
    }
    fn assumptions(&self) -> Vec<String> {
        vec![
            "Err is always acceptable; quick-xml is the trusted base for the structure of a document".into(),
            "documents using namespace prefixes on graphml elements/attributes, per-edge `directed` attributes or conflicting edgedefault declarations are only checked for totality".into(),
            "exhaustive: true holds only for the single-point sub-spaces over the fixed base documents (coverage.fired.exhaustive_single_point_cases), not for the sampled part".into(),
        ]
    }
    fn extra_evidence(&self) -> Option<J> {
        Some(J::obj().set("exhaustive_subspace", J::obj().set("bases", J::U(BASES.len() as u64)).set("base_lengths", J::Arr(BASES.iter().map(|b| J::U(b.len() as u64)).collect())).set("single_point_corruptions_enumerated", J::U(exhaustive_block() as u64)).set("kinds", J::s("truncate@k, delete byte k, duplicate byte k, flip bit (k,b), replace byte k by each of <>&\"'=/ space"))))
    }
}
