//! C05 — betweenness centrality equals its definition for every graph.
use super::algo::{self, AlgoGen};
use super::{Prop, Tier};
use crate::core::case::*;
use crate::core::rng::Rng;
use crate::core::rt;
use crate::gen::WeightRegime;
use crate::oracle::close;
use crate::oracle::dist::DistOracle;
use crate::pool;
use crate::runner::Ctx;
use graphrs::algorithms::centrality::betweenness::betweenness_centrality;

trait Tap: Sized {
    fn tap(mut self, f: impl FnOnce(&mut Self)) -> Self {
        f(&mut self);
        self
    }
}
impl Tap for Case {}

pub struct C05Prop;
pub static C05: C05Prop = C05Prop;

impl Prop for C05Prop {
    fn id(&self) -> &'static str {
        "C05"
    }
    fn runs(&self, tier: Tier) -> u64 {
        match tier {
            Tier::Quick => 20_000,
            Tier::Thorough => 500_000,
        }
    }
    fn gen(&self, seed: u64, idx: u64, _tier: Tier) -> Case {
        AlgoGen {
            large_pct: 20,
            n_small: (0, 10),
            n_large: (21, 45),
            // weighted runs need positive, exactly summable weights (ties are exact)
            regimes: vec![WeightRegime::AllNan, WeightRegime::Dyadic, WeightRegime::Dyadic, WeightRegime::SmallInt],
            kinds: AlgoGen::all_kinds(),
            shapes: None,
            lifecycle_pct: 30,
            keyings: 1,
            boundary_per_mille: 0,
        }
        .gen("C05", seed, idx)
        .tap(|case| {
            if idx % 120 == 119 {
                let mut wr = Rng::new(seed, "workload.diamonds");
                let directed = idx / 120 % 2 == 0;
                let regime = if idx / 240 % 2 == 0 { WeightRegime::AllNan } else { WeightRegime::SmallInt };
                let (specs, ops) = crate::gen::gen_graph(&mut wr, &crate::gen::GraphOpts { directed, multi: false, self_loops: false, n_min: 196, n_max: 214, regime: if regime == WeightRegime::SmallInt { WeightRegime::AllNan } else { regime }, shape: Some(crate::gen::Shape::DiamondChain), sprinkle: false });
                case.specs = specs;
                case.ops = ops;
                if regime == WeightRegime::SmallInt {
                    // weight 1 everywhere: the weighted code path with the same exponential path counts
                    for op in case.ops.iter_mut() {
                        if let Op::AddEdge(e) = op {
                            e.w = wbits(1.0);
                        }
                    }
                }
                case.params.put("shape", crate::core::json::J::s("diamond chain (> 2^64 shortest paths)"));
            }
        })
    }
    fn run_env(&self, case: &Case, env: &Env, cx: &mut Ctx) {
        let b = match algo::build(case, cx) {
            Some(b) => b,
            None => return,
        };
        let (g, snap) = (&b.g, &b.snap);
        let n = snap.n();
        let budget = rt::budget(n, snap.edges.len());
        let mut modes = vec![false];
        if !snap.edges.is_empty() && snap.weighted() && algo::all_positive(snap) {
            modes.push(true);
        }
        if n <= 2 {
            cx.count("probe.n_at_most_2");
        }
        for weighted in modes {
            let orc = DistOracle::new(snap, !weighted);
            if !orc.exact {
                continue;
            }
            if algo::sigma_max(&orc) > 1.0 {
                cx.count(if weighted { "probe.ties_under_weights" } else { "probe.ties_hop" });
            }
            for normalized in [false, true] {
                let r = rt::call("betweenness_centrality", budget, || pool::scoped(env.pool, || betweenness_centrality(g, weighted, normalized)));
                let got = match r {
                    Ok(Ok(m)) => m,
                    Ok(Err(e)) => {
                        cx.fail("C05.error", "betweenness returned Err", format!("betweenness_centrality(weighted={}, normalized={}) failed: {:?}", weighted, normalized, e.kind));
                        return;
                    }
                    Err(p) => {
                        cx.fail("C05.panic", "betweenness panicked", format!("betweenness_centrality(weighted={}, normalized={}) panicked: {} [{}]", weighted, normalized, p.0, case.specs.short()));
                        return;
                    }
                };
                cx.count("betweenness_calls");
                if got.len() != n || !snap.names.iter().all(|x| got.contains_key(x)) {
                    cx.fail("C05.entries", "one entry per node", format!("{} entries for {} nodes: {:?}", got.len(), n, got.keys().collect::<Vec<_>>()));
                    return;
                }
                let exp = orc.betweenness(normalized, snap.directed);
                for v in 0..n {
                    let x = got[&snap.names[v]];
                    if !close(x, exp[v]) {
                        let sig = format!("value {} {} {}{}", if snap.directed { "directed" } else { "undirected" }, if weighted { "weighted" } else { "hop" }, if normalized { "normalized" } else { "raw" }, if n <= 2 { " n<=2" } else { "" });
                        cx.fail("C05.value", &sig, format!("betweenness({:?}) = {} but the definition gives {} (weighted={}, normalized={}, n={}, pool={}) [{}]", snap.names[v], x, exp[v], weighted, normalized, n, env.pool, case.specs.short()));
                        return;
                    }
                }
                if n > 20 && env.pool > 1 {
                    cx.count("probe.parallel_path_taken");
                }
            }
        }
        if snap.edges.len() >= 2 {
            cx.nt.push(super::lifecycle::ops_hash(&case.ops));
        }
        cx.states.push(super::lifecycle::ops_hash(&case.ops));
    }
    fn rule(&self) -> String {
        "graphs of all 8 kinds (shapes and lifecycle-built, n <= 10 or 21-45), hop counts or positive dyadic weights; betweenness_centrality(weighted x normalized) under a simulated pool of 1-16 workers vs the definition (sum over ordered pairs of sigma(s,v) sigma(v,t)/sigma(s,t) from Floyd-Warshall distances and path counts, halved when undirected, /(n-1)(n-2) when normalized and n > 2) at 1e-9, exactly one entry per node. distinct_nontrivial = distinct graphs with >= 2 edges".into()
    }
    fn assumptions(&self) -> Vec<String> {
        vec!["weighted runs use positive dyadic weights so that path-length ties are exact".into()]
    }
}
