//! C05 — betweenness centrality equals its definition for every graph.
use super::algo::{self, AlgoGen};
use super::{Prop, Tier};
use crate::core::case::*;
use crate::core::rng::Rng;
use crate::core::rt;
use crate::gen::WeightRegime;
use crate::oracle::close;
use crate::oracle::dist::DistOracle;
use crate::pool;
use crate::runner::Ctx;
use graphrs::algorithms::centrality::betweenness::betweenness_centrality;

trait Tap: Sized {
    fn tap(mut self, f: impl FnOnce(&mut Self)) -> Self {
        f(&mut self);
        self
    }
}
impl Tap for Case {}

pub struct C05Prop;
pub static C05: C05Prop = C05Prop;

impl Prop for C05Prop {
    fn id(&self) -> &'static str {
        "C05"
    }
    fn runs(&self, tier: Tier) -> u64 {
        match tier {
            Tier::Quick => 20_000,
            Tier::Thorough => 500_000,
        }
    }
    fn gen(&self, seed: u64, idx: u64, _tier: Tier) -> Case {
        AlgoGen {
            large_pct: 20,
            n_small: (0, 10),
            n_large: (21, 45),
            // weighted runs need positive, exactly summable weights (ties are exact)
            regimes: vec![WeightRegime::AllNan, WeightRegime::Dyadic, WeightRegime::Dyadic, WeightRegime::SmallInt, WeightRegime::Nasty, WeightRegime::MostlyOnes, WeightRegime::FineDyadic, WeightRegime::NearEqual, WeightRegime::Tiny],
            kinds: AlgoGen::all_kinds(),
            shapes: None,
            lifecycle_pct: 30,
            keyings: 1,
            boundary_per_mille: 0,
            huge_one_in: 1500,
            hub_one_in: 0,
        }
        .gen("C05", seed, idx)
        .tap(|case| {
            if Rng::new(seed, "config.longchain").chance(1, 2500) {
                // about a thousand diamonds in a row: up to 2^1020 shortest paths between the two ends, a tail of 80-200 nodes behind them (path counts
                // near the top of the f64 range)
                let mut wr = Rng::new(seed, "workload.longchain");
                // path counts are f64 in graphrs: the weighted routine overflows at 2^1023 paths, the unweighted at 2^1024
                let k = wr.range(1018, 1021);
                let tail = wr.range(80, 200);
                let directed = idx % 2 == 0;
                let specs = Specs::kind(directed, false, false);
                let n = 3 * k + 1 + tail;
                let mut ids: Vec<usize> = (0..n).collect();
                wr.shuffle(&mut ids);
                let names: Vec<String> = ids.iter().map(|i| format!("n{}", i)).collect();
                let mut pairs: Vec<(usize, usize)> = vec![];
                for d in 0..k {
                    let a = 3 * d;
                    pairs.push((a, a + 1));
                    pairs.push((a, a + 2));
                    pairs.push((a + 1, a + 3));
                    pairs.push((a + 2, a + 3));
                }
                for t in 3 * k..n - 1 {
                    pairs.push((t, t + 1)); // the tail behind the last diamond
                }
                wr.shuffle(&mut pairs);
                let mut ops = vec![Op::AddNodes(names.iter().map(|x| (x.clone(), None)).collect())];
                for (u, v) in pairs {
                    let (u, v) = if !directed && wr.chance(1, 2) { (v, u) } else { (u, v) };
                    ops.push(Op::AddEdge(E { u: names[u].clone(), v: names[v].clone(), w: NAN_BITS, attr: None }));
                }
                case.specs = specs;
                case.ops = ops;
                if idx % 4 >= 2 {
                    for op in case.ops.iter_mut() {
                        if let Op::AddEdge(e) = op {
                            e.w = wbits(1.0);
                        }
                    }
                }
                case.params.put("shape", crate::core::json::J::s("diamond chain (about 2^1015 shortest paths)"));
                case.params.put("source", crate::core::json::J::s("about a thousand diamonds"));
            } else if idx % 120 == 119 {
                let mut wr = Rng::new(seed, "workload.diamonds");
                let directed = idx / 120 % 2 == 0;
                let regime = if idx / 240 % 2 == 0 { WeightRegime::AllNan } else { WeightRegime::SmallInt };
                let (specs, ops) = crate::gen::gen_graph(&mut wr, &crate::gen::GraphOpts { directed, multi: false, self_loops: false, n_min: 196, n_max: 214, regime: if regime == WeightRegime::SmallInt { WeightRegime::AllNan } else { regime }, shape: Some(crate::gen::Shape::DiamondChain), sprinkle: false });
                case.specs = specs;
                case.ops = ops;
                if regime == WeightRegime::SmallInt {
                    // weight 1 everywhere: the weighted code path with the same exponential path counts
                    for op in case.ops.iter_mut() {
                        if let Op::AddEdge(e) = op {
                            e.w = wbits(1.0);
                        }
                    }
                }
                case.params.put("shape", crate::core::json::J::s("diamond chain (> 2^64 shortest paths)"));
            }
        })
    }
    fn run_env(&self, case: &Case, env: &Env, cx: &mut Ctx) {
        let b = match algo::build(case, cx) {
            Some(b) => b,
            None => return,
        };
        let (g, snap) = (&b.g, &b.snap);
        let n = snap.n();
        let budget = rt::budget(n, snap.edges.len());
        if n > 1500 {
            // thousands of nodes: hop counts (and unit weights) against Brandes' algorithm, linear per source
            let unit = !snap.edges.is_empty() && snap.edges.iter().all(|e| e.2 == 1.0);
            for weighted in [false, true] {
                if weighted && !unit {
                    continue;
                }
                for normalized in [false, true] {
                    let got = match rt::call("betweenness_centrality", budget, || pool::scoped(env.pool, || betweenness_centrality(g, weighted, normalized))) {
                        Ok(Ok(m)) => m,
                        Ok(Err(e)) => {
                            cx.fail("C05.error", "betweenness returned Err", format!("betweenness_centrality(weighted={}, normalized={}) failed on {} nodes: {:?}", weighted, normalized, n, e.kind));
                            return;
                        }
                        Err(p) => {
                            cx.fail("C05.panic", "betweenness panicked", format!("betweenness_centrality(weighted={}, normalized={}) panicked on {} nodes: {} [{}]", weighted, normalized, n, p.0, case.specs.short()));
                            return;
                        }
                    };
                    let exp = crate::oracle::dist::brandes_hop(snap, normalized);
                    if got.len() != n {
                        cx.fail("C05.entries", "one entry per node", format!("{} entries for {} nodes", got.len(), n));
                        return;
                    }
                    for v in 0..n {
                        let x = got.get(&snap.names[v]).copied().unwrap_or(f64::NAN);
                        if !close(x, exp[v]) {
                            let sig = format!("value {} {} {}", if snap.directed { "directed" } else { "undirected" }, if weighted { "weighted" } else { "hop" }, if normalized { "normalized" } else { "raw" });
                            cx.fail("C05.value", &sig, format!("betweenness({:?}) = {} but the definition gives {} (weighted={}, normalized={}, n={}, pool={}) [{}]", snap.names[v], x, exp[v], weighted, normalized, n, env.pool, case.specs.short()));
                            return;
                        }
                    }
                    cx.count("betweenness_calls");
                }
            }
            cx.count("probe.thousands_of_nodes");
            cx.states.push(super::lifecycle::ops_hash(&case.ops[..1]));
            return;
        }
        let mut modes = vec![false];
        if !snap.edges.is_empty() && snap.weighted() && algo::all_positive(snap) {
            modes.push(true);
        }
        if n <= 2 {
            cx.count("probe.n_at_most_2");
        }
        for weighted in modes {
            let orc = DistOracle::new(snap, !weighted);
            // weights whose sums are not exact: "shortest" is read either on accumulated float path lengths
            // (ties bit for bit) or up to rounding (ties at 1e-9); the answer must be one of the two
            let float_orc = if !orc.exact {
                if !algo::comparable_scale(snap) {
                    continue;
                }
                cx.count("probe.inexactly_summable_weights");
                Some(DistOracle::new_float(snap))
            } else {
                None
            };
            if algo::sigma_max(&orc) > 1.0 {
                cx.count(if weighted { "probe.ties_under_weights" } else { "probe.ties_hop" });
            }
            for normalized in [false, true] {
                let r = rt::call("betweenness_centrality", budget, || pool::scoped(env.pool, || betweenness_centrality(g, weighted, normalized)));
                let got = match r {
                    Ok(Ok(m)) => m,
                    Ok(Err(e)) => {
                        cx.fail("C05.error", "betweenness returned Err", format!("betweenness_centrality(weighted={}, normalized={}) failed: {:?}", weighted, normalized, e.kind));
                        return;
                    }
                    Err(p) => {
                        cx.fail("C05.panic", "betweenness panicked", format!("betweenness_centrality(weighted={}, normalized={}) panicked: {} [{}]", weighted, normalized, p.0, case.specs.short()));
                        return;
                    }
                };
                cx.count("betweenness_calls");
                if got.len() != n || !snap.names.iter().all(|x| got.contains_key(x)) {
                    cx.fail("C05.entries", "one entry per node", format!("{} entries for {} nodes: {:?}", got.len(), n, got.keys().collect::<Vec<_>>()));
                    return;
                }
                let exp = orc.betweenness(normalized, snap.directed);
                if let Some(fo) = &float_orc {
                    let exp_f = fo.betweenness_brandes(normalized, snap.directed);
                    let ok_f = (0..n).all(|v| close(got[&snap.names[v]], exp_f[v]));
                    let ok_t = (0..n).all(|v| close(got[&snap.names[v]], exp[v]));
                    if ok_f != ok_t {
                        cx.count("probe.near_tie_decides_the_value");
                    }
                    if !ok_f && !ok_t {
                        let v = (0..n).find(|v| !close(got[&snap.names[*v]], exp_f[*v])).unwrap_or(0);
                        let sig = format!("value {} weighted {} [inexactly summable weights]", if snap.directed { "directed" } else { "undirected" }, if normalized { "normalized" } else { "raw" });
                        cx.fail("C05.value", &sig, format!("betweenness({:?}) = {} but the definition gives {} when path lengths are compared as accumulated floats and {} when ties are taken at 1e-9; the vector matches neither reading (normalized={}, n={}, pool={}) [{}]", snap.names[v], got[&snap.names[v]], exp_f[v], exp[v], normalized, n, env.pool, case.specs.short()));
                        return;
                    }
                    continue;
                }
                if weighted && n <= 45 {
                    // self-check of the oracle: Brandes' accumulation equals the pair-sum definition
                    let bb = orc.betweenness_brandes(normalized, snap.directed);
                    if (0..n).any(|v| !close(bb[v], exp[v])) {
                        cx.fail("HARNESS.oracle", "harness", format!("the two betweenness oracles disagree: {:?} vs {:?}", bb, exp));
                        return;
                    }
                }
                for v in 0..n {
                    let x = got[&snap.names[v]];
                    if !close(x, exp[v]) {
                        let sig = format!("value {} {} {}{}", if snap.directed { "directed" } else { "undirected" }, if weighted { "weighted" } else { "hop" }, if normalized { "normalized" } else { "raw" }, if n <= 2 { " n<=2" } else { "" });
                        cx.fail("C05.value", &sig, format!("betweenness({:?}) = {} but the definition gives {} (weighted={}, normalized={}, n={}, pool={}) [{}]", snap.names[v], x, exp[v], weighted, normalized, n, env.pool, case.specs.short()));
                        return;
                    }
                }
                if n > 20 && env.pool > 1 {
                    cx.count("probe.parallel_path_taken");
                }
            }
        }
        if snap.edges.len() >= 2 {
            cx.nt.push(super::lifecycle::ops_hash(&case.ops));
        }
        cx.states.push(super::lifecycle::ops_hash(&case.ops));
    }
    fn rule(&self) -> String {
        "graphs of all 8 kinds (shapes and lifecycle-built, n <= 10 or 21-45), hop counts or positive dyadic weights; betweenness_centrality(weighted x normalized) under a simulated pool of 1-16 workers vs the definition (sum over ordered pairs of sigma(s,v) sigma(v,t)/sigma(s,t) from Floyd-Warshall distances and path counts, halved when undirected, /(n-1)(n-2) when normalized and n > 2) at 1e-9, exactly one entry per node. distinct_nontrivial = distinct graphs with >= 2 edges; one case in 1500 is a dense graph (1-3 blocks, 60-300 nodes) with 2 100 - 12 500 stored edges under a pool of 2-16 workers (strategy thresholds); weights also 1 + k 2^-j (exact) and decimal / near-equal / 1e-17-scale weights, for which the whole vector must equal the definition under the accumulated-float reading (Brandes accumulation over bit-exact ties of the least fixpoint d(v) = min fl(d(u)+w)) or under the 1e-9 reading; in a third of the cases a battery of valid unjudged calls runs first on a sibling graph (same names and edges, other node order), in a fifth the graph is queried on the same object before its last one to three operations are applied (DESIGN.md 0.2); one case in 2 500 is a chain of 1 018 - 1 021 diamonds with a tail of 80-200 nodes (up to 2^1021 shortest paths between two nodes), hop counts and unit weights, against Brandes' algorithm written linearly per source".into()
    }
    fn assumptions(&self) -> Vec<String> {
        vec!["under dyadic weights path-length ties are exact and the definition is unique; under inexactly summable weights two readings of \"shortest\" are accepted (accumulated floats compared bit for bit, or ties at 1e-9) and the vector must match one of them as a whole; graphs whose weight scales differ by more than 1e9 are skipped in weighted mode".into()]
    }
}
