//! C20 — valid calls on degenerate graphs return values or errors, never panic (programs x inputs).
//! Every public function of the crate is called on every degenerate shape x 8 graph kinds x weighted/unweighted,
//! with every existing name (and, for functions with an error channel, one absent name), under the panic monitor
//! (overflow checks and debug assertions are on in this build) and the step budget (hang monitor).
use super::algo;
use super::{Prop, Tier};
use crate::core::case::*;
use crate::core::json::J;
use crate::core::model::K;
use crate::core::real::{self, Snap, G};
use crate::core::rng::Rng;
use crate::core::rt;
use crate::gen;
use crate::runner::Ctx;
use graphrs::algorithms::centrality::{betweenness, closeness, degree, eigenvector};
use graphrs::algorithms::community::{louvain, partitions};
use graphrs::algorithms::shortest_path::dijkstra;
use graphrs::algorithms::{cluster, components};
use graphrs::readwrite::graphml;
use std::collections::HashSet;

pub struct C20Prop;
pub static C20: C20Prop = C20Prop;

#[derive(Debug, Clone, PartialEq)]
enum Res {
    Val,
    Err(K),
    None,
}
fn r<T>(x: Result<T, graphrs::Error>) -> Res {
    match x {
        Ok(_) => Res::Val,
        Err(e) => Res::Err(real::kind(&e.kind)),
    }
}
fn o<T>(x: Option<T>) -> Res {
    match x {
        Some(_) => Res::Val,
        None => Res::None,
    }
}
fn v<T>(_x: T) -> Res {
    Res::Val
}

/// what the statement demands of this particular call
#[derive(Clone, Copy, PartialEq, Debug)]
enum Must {
    /// existing names, supported or unspecified kind: return anything, just do not panic or hang
    Return,
    /// an absent name was passed to a function with an error channel: Err / None
    Refuse,
    /// the function's documented kind restriction is violated: Err (WrongMethod)
    WrongKind,
}

pub const SHAPES: &[&str] = &["empty", "one_node", "edgeless", "one_edge", "self_loop_only", "isolated_plus_component", "star", "path", "parallel_only", "two_components", "loop_and_parallel", "reciprocal_pair", "diamond", "triangle_with_tail", "path_of_25"];

fn shape_ops(shape: &str, directed: bool, multi: bool, loops: bool, weighted: bool) -> Vec<Op> {
    let w = |x: f64| if weighted { wbits(x) } else { NAN_BITS };
    let e = |u: &str, v: &str, x: f64| Op::AddEdge(E { u: u.into(), v: v.into(), w: w(x), attr: None });
    let nodes = |v: &[&str]| Op::AddNodes(v.iter().map(|s| (s.to_string(), None)).collect());
    let _ = directed;
    match shape {
        "empty" => vec![],
        "one_node" => vec![nodes(&["b"])],
        "edgeless" => vec![nodes(&["b", "a", "c"])],
        "one_edge" => vec![nodes(&["b", "a"]), e("b", "a", 1.5)],
        "self_loop_only" => {
            let mut v = vec![nodes(&["b", "a"])];
            if loops {
                v.push(e("a", "a", 2.0));
            }
            v
        }
        "isolated_plus_component" => vec![nodes(&["z", "b", "a", "c"]), e("b", "a", 1.0), e("a", "c", 2.0), e("c", "b", 0.5)],
        "star" => vec![nodes(&["h", "x", "a", "m"]), e("h", "x", 1.0), e("h", "a", 2.0), e("m", "h", 3.0)],
        "path" => vec![nodes(&["p3", "p1", "p2", "p0"]), e("p0", "p1", 1.0), e("p1", "p2", 1.0), e("p2", "p3", 1.0)],
        "parallel_only" => {
            let mut v = vec![nodes(&["b", "a"]), e("a", "b", 1.0)];
            if multi {
                v.push(e("a", "b", 3.0));
                v.push(e("b", "a", 0.5));
            }
            v
        }
        "two_components" => vec![nodes(&["d", "b", "c", "a"]), e("a", "b", 1.0), e("c", "d", 2.0)],
        // two equally long routes a -> d (ties) and a degree-one tail
        "diamond" => vec![nodes(&["d", "c", "b", "a"]), e("a", "b", 1.0), e("a", "c", 1.0), e("b", "d", 1.0), e("c", "d", 1.0)],
        // above the serial-to-parallel threshold of the algorithms (the environment's pool has > 1 worker)
        "path_of_25" => {
            let names: Vec<String> = (0..25).map(|i| format!("v{}", 24 - i)).collect();
            let mut v = vec![Op::AddNodes(names.iter().map(|s| (s.clone(), None)).collect())];
            for i in 1..25 {
                v.push(e(&names[i - 1], &names[i], 1.0 + (i % 3) as f64));
            }
            v
        }
        "triangle_with_tail" => vec![nodes(&["t", "z", "y", "x"]), e("x", "y", 1.0), e("y", "z", 1.0), e("z", "x", 1.0), e("z", "t", 2.0)],
        "loop_and_parallel" => {
            let mut v = vec![nodes(&["b", "a", "c"]), e("a", "b", 1.0), e("b", "c", 1.0)];
            if loops {
                v.push(e("b", "b", 1.0));
                v.push(e("c", "c", 4.0));
            }
            if multi {
                v.push(e("b", "a", 2.0));
            }
            v
        }
        _ => vec![nodes(&["b", "a"]), e("a", "b", 1.0), e("b", "a", 2.0)],
    }
}

struct Sweep<'a> {
    cx: &'a mut Ctx,
    case: &'a Case,
    keying: u64,
    budget: u64,
    stop: bool,
}

impl<'a> Sweep<'a> {
    fn call(&mut self, name: &'static str, must: Must, args: &str, f: impl FnOnce() -> Res) {
        if self.stop {
            return;
        }
        self.cx.count(&format!("fn.{}", name));
        self.cx.count(&format!("must.{:?}", must));
        let shape = self.case.p_str("shape").unwrap_or("random");
        let kind = format!("{}{}", if self.case.specs.directed { "directed" } else { "undirected" }, if self.case.specs.multi { "+multi" } else { "" });
        match rt::call(name, self.budget, f) {
            Err(p) => {
                let site = rt::strip_repo(p.0.rsplit(" @ ").next().unwrap_or(""));
                self.cx.fail(
                    "C20.panic",
                    &format!("{} panicked at {} ({:?})", name, site, must),
                    format!("{}({}) panicked on shape `{}` ({}, keying {}): {} [{}]", name, args, shape, kind, self.keying, p.0, self.case.specs.short()),
                );
            }
            Ok(res) => {
                self.cx.count(match res {
                    Res::Val => "outcome.value",
                    Res::Err(_) => "outcome.Err",
                    Res::None => "outcome.None",
                });
                match must {
                    Must::Return => {}
                    Must::Refuse => {
                        if res == Res::Val {
                            self.cx.fail("C20.absent_name_accepted", &format!("{} answers Ok for a name that is not in the graph", name), format!("{}({}) returned a value although a name is not in the graph (shape `{}`, {}); it has an error channel and must use it", name, args, shape, kind));
                        }
                    }
                    Must::WrongKind => match res {
                        Res::Err(_) => {}
                        other => self.cx.fail("C20.wrong_kind_accepted", &format!("{} on an unsupported kind ({})", name, kind), format!("{}({}) returned {:?} on a {} graph it does not support; it must return an error (WrongMethod)", name, args, other, kind)),
                    },
                }
            }
        }
        if self.cx.viol.len() >= 6 {
            self.stop = true;
        }
    }
}

/// The registry: every public function of the crate that takes a graph (plus the generators and the reader).
pub fn sweep(g: &G, snap: &Snap, case: &Case, keying: u64, cx: &mut Ctx) {
    let n = snap.n();
    let budget = rt::budget(n.max(4), snap.edges.len().max(4));
    let mut s = Sweep { cx, case, keying, budget, stop: false };
    let directed = snap.directed;
    let multi = snap.multi;
    let absent = "~absent".to_string();
    let names = snap.names.clone();
    let all_weighted = !snap.edges.is_empty() && snap.weighted();
    let existing = |must_if_unsupported: bool| if must_if_unsupported { Must::WrongKind } else { Must::Return };
    use Must::*;

    // ---- graph/query.rs
    s.call("get_all_nodes", Return, "", || v(g.get_all_nodes().len()));
    s.call("get_all_node_names", Return, "", || v(g.get_all_node_names().len()));
    s.call("get_all_edges", Return, "", || v(g.get_all_edges().len()));
    s.call("edges_have_weight", Return, "", || v(g.edges_have_weight()));
    s.call("number_of_nodes", Return, "", || v(g.number_of_nodes()));
    s.call("number_of_edges", Return, "", || v(g.number_of_edges()));
    s.call("size", Return, "false", || v(g.size(false)));
    s.call("size", Return, "true", || v(g.size(true)));
    s.call("get_successors_map", Return, "", || v(g.get_successors_map().len()));
    s.call("get_predecessors_map", Return, "", || v(g.get_predecessors_map().len()));
    s.call("get_density", Return, "", || v(g.get_density()));
    s.call("has_nodes", Return, "all", || v(g.has_nodes(&names)));
    s.call("has_nodes", Return, "[absent]", || v(g.has_nodes(&[absent.clone()])));
    s.call("get_node_by_index", Return, "n", || o(g.get_node_by_index(&n)).pipe_none());
    for i in 0..n {
        s.call("get_node_by_index", Return, &i.to_string(), || o(g.get_node_by_index(&i)));
    }
    let mut per_node: Vec<(String, bool)> = names.iter().map(|x| (x.clone(), true)).collect();
    per_node.push((absent.clone(), false));
    for (x, present) in &per_node {
        let x = x.clone();
        let refuse = if *present { Return } else { Refuse };
        s.call("has_node", Return, &x, || v(g.has_node(&x)));
        s.call("get_node", refuse, &x, || o(g.get_node(x.clone())));
        s.call("get_edges_for_node", refuse, &x, || r(g.get_edges_for_node(x.clone())));
        s.call("get_neighbor_nodes", refuse, &x, || r(g.get_neighbor_nodes(x.clone())));
        let dir_only = if !*present {
            Refuse
        } else {
            existing(!directed)
        };
        s.call("get_in_edges_for_node", dir_only, &x, || r(g.get_in_edges_for_node(x.clone())));
        s.call("get_out_edges_for_node", dir_only, &x, || r(g.get_out_edges_for_node(x.clone())));
        s.call("get_successor_nodes", dir_only, &x, || r(g.get_successor_nodes(x.clone())));
        s.call("get_successor_node_names", dir_only, &x, || r(g.get_successor_node_names(x.clone())));
        s.call("get_predecessor_nodes", dir_only, &x, || r(g.get_predecessor_nodes(x.clone())));
        s.call("get_predecessor_node_names", dir_only, &x, || r(g.get_predecessor_node_names(x.clone())));
        // degrees: Option channel
        s.call("get_node_degree", refuse, &x, || o(g.get_node_degree(x.clone())));
        s.call("get_node_weighted_degree", refuse, &x, || o(g.get_node_weighted_degree(x.clone())));
        let dir_opt = if !*present || !directed { Refuse } else { Return };
        s.call("get_node_in_degree", dir_opt, &x, || o(g.get_node_in_degree(x.clone())));
        s.call("get_node_out_degree", dir_opt, &x, || o(g.get_node_out_degree(x.clone())));
        s.call("get_node_weighted_in_degree", dir_opt, &x, || o(g.get_node_weighted_in_degree(x.clone())));
        s.call("get_node_weighted_out_degree", dir_opt, &x, || o(g.get_node_weighted_out_degree(x.clone())));
        if *present {
            // no error channel: existing names only
            s.call("get_successors_or_neighbors", Return, &x, || v(g.get_successors_or_neighbors(x.clone()).len()));
            s.call("breadth_first_search", Return, &x, || v(g.breadth_first_search(&x).len()));
            s.call("get_subgraph", Return, &x, || v(g.get_subgraph(&[x.clone()]).number_of_nodes()));
        }
        for (y, ypresent) in &per_node {
            let y = y.clone();
            let both = *present && *ypresent;
            let m1 = if !both {
                Refuse
            } else {
                existing(multi)
            };
            let m2 = if !both {
                Refuse
            } else {
                existing(!multi)
            };
            s.call("get_edge", m1, &format!("{},{}", x, y), || r(g.get_edge(x.clone(), y.clone())).edge_not_found_ok());
            s.call("get_edges", m2, &format!("{},{}", x, y), || r(g.get_edges(x.clone(), y.clone())).edge_not_found_ok());
        }
    }
    for set in [vec![], names.clone(), vec![absent.clone()], names.iter().take(1).cloned().chain(std::iter::once(absent.clone())).collect::<Vec<_>>()] {
        let has_absent = set.contains(&absent);
        let m = if has_absent { Refuse } else { Return };
        let md = if has_absent {
            Refuse
        } else {
            existing(!directed)
        };
        s.call("get_edges_for_nodes", m, &format!("{:?}", set), || r(g.get_edges_for_nodes(&set)));
        s.call("get_in_edges_for_nodes", md, &format!("{:?}", set), || r(g.get_in_edges_for_nodes(&set)));
        s.call("get_out_edges_for_nodes", md, &format!("{:?}", set), || r(g.get_out_edges_for_nodes(&set)));
        s.call("get_subgraph", Return, &format!("{:?}", set), || v(g.get_subgraph(&set).number_of_nodes()));
    }
    // ---- graph/degree.rs, density, matrix, convert, ensure
    s.call("get_degree_for_all_nodes", Return, "", || v(g.get_degree_for_all_nodes().len()));
    s.call("get_weighted_degree_for_all_nodes", Return, "", || v(g.get_weighted_degree_for_all_nodes().len()));
    s.call("get_in_degree_for_all_nodes", existing(!directed), "", || r(g.get_in_degree_for_all_nodes()));
    s.call("get_out_degree_for_all_nodes", existing(!directed), "", || r(g.get_out_degree_for_all_nodes()));
    s.call("get_weighted_in_degree_for_all_nodes", existing(!directed), "", || r(g.get_weighted_in_degree_for_all_nodes()));
    s.call("get_weighted_out_degree_for_all_nodes", existing(!directed), "", || r(g.get_weighted_out_degree_for_all_nodes()));
    s.call("get_sparse_adjacency_matrix", existing(multi), "", || r(g.get_sparse_adjacency_matrix()));
    s.call("reverse", existing(!directed), "", || r(g.reverse()));
    s.call("to_single_edges", existing(!multi), "", || r(g.to_single_edges()));
    s.call("set_all_edge_weights", Return, "2.0", || v(g.set_all_edge_weights(2.0).number_of_nodes()));
    s.call("set_all_edge_weights", Return, "NaN", || v(g.set_all_edge_weights(f64::NAN).number_of_nodes()));
    s.call("ensure_directed", existing(!directed), "", || r(g.ensure_directed()));
    s.call("ensure_undirected", existing(directed), "", || r(g.ensure_undirected()));
    s.call("ensure_not_multi_edges", existing(multi), "", || r(g.ensure_not_multi_edges()));
    s.call("ensure_weighted", Return, "", || r(g.ensure_weighted()));
    // ---- shortest paths
    for weighted in [false, true] {
        for (x, present) in &per_node {
            let x = x.clone();
            let m = if *present { Return } else { Refuse };
            s.call("dijkstra::single_source", m, &format!("{},{}", weighted, x), || r(dijkstra::single_source(g, weighted, x.clone(), None, None, false, true)));
            s.call("dijkstra::single_source", Refuse, &format!("{},{},target=absent", weighted, x), || r(dijkstra::single_source(g, weighted, x.clone(), Some(absent.clone()), None, false, true)));
            s.call("dijkstra::multi_source", m, &format!("{},[{}]", weighted, x), || r(dijkstra::multi_source(g, weighted, vec![x.clone()], None, Some(1.0), true, false)));
            if *present {
                // every option combination (target / cutoff x first_only x with_paths) from this source
                for (y, yp) in &per_node {
                    if !*yp {
                        continue;
                    }
                    for cutoff in [None, Some(2.0)] {
                        for first_only in [false, true] {
                            for with_paths in [false, true] {
                                let y = y.clone();
                                s.call("dijkstra::single_source", Return, &format!("{},{},target={},cutoff={:?},{},{}", weighted, x, y, cutoff, first_only, with_paths), || r(dijkstra::single_source(g, weighted, x.clone(), Some(y.clone()), cutoff, first_only, with_paths)));
                            }
                        }
                    }
                }
                for first_only in [false, true] {
                    for with_paths in [false, true] {
                        s.call("dijkstra::single_source", Return, &format!("{},{},cutoff,{},{}", weighted, x, first_only, with_paths), || r(dijkstra::single_source(g, weighted, x.clone(), None, Some(1.5), first_only, with_paths)));
                        s.call("dijkstra::multi_source", Return, &format!("{},[{}],target,{},{}", weighted, x, first_only, with_paths), || r(dijkstra::multi_source(g, weighted, vec![x.clone()], Some(x.clone()), None, first_only, with_paths)));
                        s.call("dijkstra::all_pairs", Return, &format!("{},target={},cutoff,{},{}", weighted, x, first_only, with_paths), || r(dijkstra::all_pairs(g, weighted, Some(x.clone()), Some(2.0), first_only, with_paths)));
                    }
                }
            }
            if *present {
                s.call("dijkstra::get_all_shortest_paths_involving", Return, &format!("{},{}", x, weighted), || v(dijkstra::get_all_shortest_paths_involving(g, x.clone(), weighted).len()));
                s.call("dijkstra::all_pairs", Return, &format!("{},target={}", weighted, x), || r(dijkstra::all_pairs(g, weighted, Some(x.clone()), None, false, true)));
            }
        }
        s.call("dijkstra::all_pairs", Return, &format!("{}", weighted), || r(dijkstra::all_pairs(g, weighted, None, None, false, true)));
        s.call("dijkstra::all_pairs", Return, &format!("{},distances only", weighted), || r(dijkstra::all_pairs(g, weighted, None, None, false, false)));
        s.call("dijkstra::all_pairs", Refuse, &format!("{},target=absent", weighted), || r(dijkstra::all_pairs(g, weighted, Some(absent.clone()), None, false, true)));
        s.call("dijkstra::multi_source", Return, &format!("{},all", weighted), || r(dijkstra::multi_source(g, weighted, names.clone(), None, None, false, true)));
        s.call("dijkstra::multi_source", Return, &format!("{},[]", weighted), || r(dijkstra::multi_source(g, weighted, vec![], None, None, false, true)));
        // ---- centrality
        for flag in [false, true] {
            s.call("betweenness_centrality", Return, &format!("{},{}", weighted, flag), || r(betweenness::betweenness_centrality(g, weighted, flag)));
            s.call("closeness_centrality", Return, &format!("{},{}", weighted, flag), || r(closeness::closeness_centrality(g, weighted, flag)));
        }
        s.call("eigenvector_centrality", existing(multi), &format!("{}", weighted), || r(eigenvector::eigenvector_centrality(g, weighted, Some(50), None)));
        s.call("eigenvector_centrality", existing(multi), &format!("{},max_iter=1", weighted), || r(eigenvector::eigenvector_centrality(g, weighted, Some(1), Some(1e-12))));
        // ---- clustering family
        let sel: Vec<Option<Vec<String>>> = {
            let mut v2 = vec![None, Some(vec![])];
            for x in &names {
                v2.push(Some(vec![x.clone()]));
            }
            v2
        };
        for nn in &sel {
            let a = format!("{},{:?}", weighted, nn);
            let ns = nn.as_deref();
            s.call("cluster::clustering", existing(multi), &a, || r(cluster::clustering(g, weighted, ns)));
            s.call("cluster::average_clustering", existing(multi), &a, || r(cluster::average_clustering(g, weighted, ns, true)));
            s.call("cluster::average_clustering", existing(multi), &format!("{},count_zeros=false", a), || r(cluster::average_clustering(g, weighted, ns, false)));
        }
        let abs = [absent.clone()];
        s.call("cluster::clustering", Refuse, &format!("{},[absent]", weighted), || r(cluster::clustering(g, weighted, Some(&abs))));
        s.call("cluster::average_clustering", Refuse, &format!("{},[absent]", weighted), || r(cluster::average_clustering(g, weighted, Some(&abs), true)));
        // ---- communities
        if !snap.edges.is_empty() && (!weighted || (all_weighted && algo::all_positive(snap))) {
            for seed in [1u64, 7] {
                s.call("louvain_partitions", Return, &format!("{},seed={}", weighted, seed), || r(louvain::louvain_partitions(g, weighted, None, None, Some(seed))));
                s.call("louvain_communities", Return, &format!("{},seed={}", weighted, seed), || r(louvain::louvain_communities(g, weighted, Some(0.5), Some(0.0), Some(seed))));
            }
        }
        let singles: Vec<HashSet<String>> = names.iter().map(|x| [x.clone()].into_iter().collect()).collect();
        let one: Vec<HashSet<String>> = if names.is_empty() { vec![] } else { vec![names.iter().cloned().collect()] };
        let foreign: Vec<HashSet<String>> = vec![names.iter().cloned().chain(std::iter::once(absent.clone())).collect()];
        s.call("partitions::is_partition", Return, "singletons", || v(partitions::is_partition(g, &singles)));
        s.call("partitions::is_partition", Return, "foreign", || v(partitions::is_partition(g, &foreign)));
        s.call("partitions::modularity", Return, &format!("singletons,{}", weighted), || r(partitions::modularity(g, &singles, weighted, None)));
        s.call("partitions::modularity", Return, &format!("one set,{}", weighted), || r(partitions::modularity(g, &one, weighted, Some(2.0))));
        s.call("partitions::modularity", Refuse, &format!("foreign name,{}", weighted), || r(partitions::modularity(g, &foreign, weighted, None)));
    }
    let und_only = existing(directed || multi);
    let sel: Vec<Option<Vec<String>>> = {
        let mut v2 = vec![None];
        for x in &names {
            v2.push(Some(vec![x.clone()]));
        }
        v2
    };
    for nn in &sel {
        let a = format!("{:?}", nn);
        let ns = nn.as_deref();
        s.call("cluster::triangles", und_only, &a, || r(cluster::triangles(g, ns)));
        s.call("cluster::generalized_degree", und_only, &a, || r(cluster::generalized_degree(g, ns)));
        // no error channel: any kind, existing names: must not panic
        s.call("cluster::square_clustering", Return, &a, || v(cluster::square_clustering(g, ns).len()));
    }
    let abs = [absent.clone()];
    s.call("cluster::triangles", Refuse, "[absent]", || r(cluster::triangles(g, Some(&abs))));
    s.call("cluster::generalized_degree", Refuse, "[absent]", || r(cluster::generalized_degree(g, Some(&abs))));
    s.call("cluster::transitivity", und_only, "", || r(cluster::transitivity(g)));
    s.call("degree_centrality", Return, "", || v(degree::degree_centrality(g).len()));
    // ---- components
    s.call("connected_components", existing(directed), "", || r(components::connected_components(g)));
    s.call("number_of_connected_components", existing(directed), "", || r(components::number_of_connected_components(g)));
    s.call("weakly_connected_components", existing(!directed), "", || r(components::weakly_connected_components(g)));
    s.call("strongly_connected_components", existing(!directed), "", || r(components::strongly_connected_components(g)));
    for (x, present) in &per_node {
        let x = x.clone();
        let m = if !*present {
            Refuse
        } else {
            existing(directed)
        };
        s.call("node_connected_component", m, &x, || r(components::node_connected_component(g, &x)));
    }
    for k in [1usize, 2, n.max(1), n + 1] {
        s.call("bfs_equal_size_partitions", Return, &k.to_string(), || v(components::bfs_equal_size_partitions(g, k).len()));
    }
    // ---- generators (no graph argument: degenerate sizes and probabilities)
    for nn in [0i32, 1, 2, 5] {
        for d in [false, true] {
            s.call("complete_graph", Return, &format!("{},{}", nn, d), || v(graphrs::generators::classic::complete_graph(nn, d).number_of_nodes()));
            for p in [0.5, 1e-9, 0.999999] {
                s.call("fast_gnp_random_graph", Return, &format!("{},{},{}", nn, p, d), || r(graphrs::generators::random::fast_gnp_random_graph(nn, p, d, Some(3))));
            }
            for p in [0.0, 1.0, -0.5, 1.5, f64::NAN] {
                s.call("fast_gnp_random_graph", if p.is_nan() { Return } else { WrongKind }, &format!("{},{},{}", nn, p, d), || r(graphrs::generators::random::fast_gnp_random_graph(nn, p, d, Some(3))));
            }
        }
    }
    s.call("karate_club_graph", Return, "", || v(graphrs::generators::social::karate_club_graph().number_of_nodes()));
    // ---- read / write
    s.call("write_graphml_string", Return, "", || match graphml::write_graphml_string(g) {
        Ok(_) => Res::Val,
        Err(_) => Res::Err(K::Other),
    });
    s.call("read_graphml_string", Return, "own output", || match graphml::write_graphml_string(g) {
        Ok(doc) => r(graphml::read_graphml_string(&doc, g.specs.clone())),
        Err(_) => Res::Err(K::Other),
    });
    s.call("read_graphml_string", Return, "garbage", || r(graphml::read_graphml_string("<graphml><graph><node/></graph>", g.specs.clone())));
}

trait ResExt {
    fn pipe_none(self) -> Res;
    fn edge_not_found_ok(self) -> Res;
}
impl ResExt for Res {
    fn pipe_none(self) -> Res {
        self
    }
    /// for pair queries "no such edge" is a legitimate answer on a supported kind; nothing to judge
    fn edge_not_found_ok(self) -> Res {
        self
    }
}

impl Prop for C20Prop {
    fn id(&self) -> &'static str {
        "C20"
    }
    fn runs(&self, tier: Tier) -> u64 {
        let fixed = (SHAPES.len() * 8 * 2) as u64;
        fixed
            + match tier {
                Tier::Quick => 20_000,
                Tier::Thorough => 600_000,
            }
    }
    fn gen(&self, seed: u64, idx: u64, _tier: Tier) -> Case {
        let fixed = (SHAPES.len() * 8 * 2) as u64;
        let mut rng = Rng::new(seed, "config");
        let mut case;
        if idx < fixed {
            // the enumerated part: every degenerate shape x 8 kinds x weighted / unweighted
            let i = idx as usize;
            let shape = SHAPES[i % SHAPES.len()];
            let (d, m, l) = gen::kind_from((i / SHAPES.len()) % 8);
            let weighted = i / (SHAPES.len() * 8) == 1;
            case = Case::new("C20", seed, Specs::kind(d, m, l));
            case.ops = shape_ops(shape, d, m, l, weighted);
            case.params.put("shape", J::s(shape));
            case.params.put("weighted", J::Bool(weighted));
        } else {
            // small random graphs from lifecycle histories and shapes (<= 6 nodes)
            let (d, m, l) = gen::kind_from(idx as usize % 8);
            let regime = *rng.pick(&[gen::WeightRegime::AllNan, gen::WeightRegime::Dyadic, gen::WeightRegime::Mixed, gen::WeightRegime::ZeroDyadic]);
            let mut wr = Rng::new(seed, "workload");
            if rng.chance(1, 2) {
                let specs = Specs { directed: d, multi: m, self_loops: l, dedupe: *rng.pick(&[Dedupe::KeepFirst, Dedupe::KeepLast]), missing: Missing::Create, slf: Slf::Drop };
                case = Case::new("C20", seed, specs);
                case.ops = gen::gen_history(&mut wr, &gen::HistOpts { specs, max_ops: 12, regime, derived: true, restart: false, names_min: 2, names_max: 5, dup_bias: 30, big: false });
            } else {
                let (specs, ops) = gen::gen_graph(&mut wr, &gen::GraphOpts { directed: d, multi: m, self_loops: l, n_min: 0, n_max: 6, regime, shape: None, sprinkle: true });
                case = Case::new("C20", seed, specs);
                case.ops = ops;
            }
            case.params.put("shape", J::s("random"));
        }
        case.envs = gen::envs(seed, 2);
        case
    }
    fn hang_sig(&self, case: &Case, label: &str) -> String {
        format!("{} does not return ({})", label, if case.specs.directed { "directed" } else { "undirected" })
    }
    fn run_env(&self, case: &Case, env: &Env, cx: &mut Ctx) {
        let b = match algo::build(case, cx) {
            Some(b) => b,
            None => return,
        };
        if case.seed % 4 == 0 {
            // searches that fail and searches that stop early run first on this thread (fault, then recovery)
            algo::poison_prelude(env, cx);
        }
        sweep(&b.g, &b.snap, case, env.keying, cx);
        cx.count(&format!("shape.{}", case.p_str("shape").unwrap_or("random")));
        if env.keying == 0 {
            cx.states.push(super::lifecycle::ops_hash(&case.ops));
            cx.nt.push(crate::core::rng::mix(super::lifecycle::ops_hash(&case.ops), case.specs.index() as u64));
        }
    }
    fn rule(&self) -> String {
        format!("programs x inputs: a registry of every public function that takes a graph is called on {} degenerate shapes ({}) x 8 graph kinds x weighted/unweighted (enumerated, cases 0..{}), plus small random graphs from lifecycle histories and shapes; arguments: every existing name, every ordered pair, k in {{1,2,n,n+1}}, subsets, and for functions returning Result/Option one absent name; 2 hash keyings. Monitors: catch_unwind (overflow checks and debug assertions on), step budget, worker death. Oracle: the call returns; with an absent name a Result/Option function returns Err/None; a function whose documentation or C02/C10/C11 declare a kind restriction returns Err on the other kind. distinct_nontrivial = distinct (graph, specs) swept; in a quarter of the cases searches that fail and searches that stop early run first on the thread; in a third of the cases a battery of valid unjudged calls runs first on a sibling graph (same names and edges, other node order), in a fifth the graph is queried on the same object before its last one to three operations are applied (DESIGN.md 0.2)", SHAPES.len(), SHAPES.join(", "), SHAPES.len() * 16)
    }
    fn assumptions(&self) -> Vec<String> {
        vec!["the registry is maintained by hand; coverage.extra lists public functions found in /repo/src that it does not call".into(), "functions without an error channel are called with existing names only; error KINDS are not judged here, only that the error channel is used".into()]
    }
    fn extra_evidence(&self) -> Option<J> {
        Some(registry_scan())
    }
}

/// public functions in /repo/src vs the names this file calls
fn registry_scan() -> J {
    let me = include_str!("c20.rs");
    let mut found: Vec<String> = vec![];
    fn walk(dir: &std::path::Path, f: &mut dyn FnMut(&std::path::Path)) {
        if let Ok(rd) = std::fs::read_dir(dir) {
            let mut v: Vec<_> = rd.flatten().map(|e| e.path()).collect();
            v.sort();
            for p in v {
                if p.is_dir() {
                    walk(&p, f);
                } else if p.extension().map_or(false, |e| e == "rs") {
                    f(&p);
                }
            }
        }
    }
    let root = format!("{}/src", rt::repo_dir());
    let prefix = format!("{}/", root);
    walk(std::path::Path::new(&root), &mut |p| {
        let name = p.to_string_lossy().to_string();
        if name.contains("/main-") || name.ends_with("verif.rs") {
            return;
        }
        if let Ok(s) = std::fs::read_to_string(p) {
            for line in s.lines() {
                let t = line.trim_start();
                if let Some(rest) = t.strip_prefix("pub fn ") {
                    let f: String = rest.chars().take_while(|c| c.is_alphanumeric() || *c == '_').collect();
                    found.push(format!("{}::{}", name.trim_start_matches(prefix.as_str()).trim_end_matches(".rs"), f));
                }
            }
        }
    });
    // private helper modules and constructors are not API a degenerate graph can reach
    let skip = ["cluster/directed", "cluster/directed_weighted", "cluster/undirected", "cluster/undirected_weighted", "cluster/utility", "fringe_node", "adjacent_node", "edge::", "node::", "graph_specs::", "creation::", "shortest_path_info", "read_graphml_file", "write_graphml_file"];
    let mut uncovered = vec![];
    let mut covered = 0;
    for f in &found {
        if skip.iter().any(|s| f.contains(s)) {
            continue;
        }
        let short = f.rsplit("::").next().unwrap_or("");
        if me.contains(&format!("\"{}\"", short)) || me.contains(&format!("::{}\"", short)) {
            covered += 1;
        } else {
            uncovered.push(f.clone());
        }
    }
    J::obj()
        .set("public_functions_found", J::U(found.len() as u64))
        .set("called_by_the_registry", J::U(covered))
        .set("not_called", J::strs(&uncovered))
        .set("exempt", J::s("constructors (Edge, Node, GraphSpecs, Graph::new / add_*: exercised by C01), generators (C17), file I/O (C14), helpers in private modules"))
}
