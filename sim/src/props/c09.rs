//! C09 — counts, degrees, density and the adjacency matrix agree with the edge multiset.
use super::lifecycle::{self, Arms};
use super::{Prop, Tier};
use crate::core::case::*;
use crate::core::model::{Model, K};
use crate::core::real::{self, Snap, G};
use crate::core::rng::Rng;
use crate::core::rt;
use crate::gen;
use crate::oracle::close;
use crate::runner::{Ctx, EnvResult};
use graphrs::algorithms::centrality::degree::degree_centrality;

pub struct C09Prop;
pub static C09: C09Prop = C09Prop;
const B: u64 = real::OP_BUDGET;

pub fn check_counts(step: usize, g: &G, m: &Model, _case: &Case, cx: &mut Ctx) {
    // reference: what get_all_nodes / get_all_edges of the real graph show
    let snap = match Snap::of(g) {
        Ok(s) => s,
        Err(p) => {
            cx.fail("C09.panic", "observe", format!("observe panicked: {}", p.0));
            return;
        }
    };
    let specs = m.specs;
    let n = snap.n();
    let medges = snap.edges.len();
    let directed = snap.directed;
    let weighted = medges > 0 && snap.weighted();
    let kind = format!("{}{}", if directed { "directed" } else { "undirected" }, if specs.multi { "+multi" } else { "" });
    macro_rules! q {
        ($label:expr, $e:expr) => {
            match rt::call($label, B, || $e) {
                Ok(v) => v,
                Err(p) => {
                    cx.fail("C09.panic", &format!("{} panicked", $label), format!("after step {}: {} panicked: {} [{}]", step, $label, p.0, specs.short()));
                    return;
                }
            }
        };
    }
    macro_rules! bad {
        ($oracle:expr, $sig:expr, $($arg:tt)*) => {{
            cx.fail($oracle, &$sig, format!("after step {}: {} [{}]", step, format!($($arg)*), specs.short()));
            return;
        }};
    }
    let has_parallel = {
        let mut seen = std::collections::BTreeSet::new();
        snap.edges.iter().any(|e| {
            let k = if directed || e.0 <= e.1 { (e.0, e.1) } else { (e.1, e.0) };
            !seen.insert(k)
        })
    };
    let has_loop = snap.edges.iter().any(|e| e.0 == e.1);
    if has_parallel {
        cx.count("probe.parallel_edges_present");
    }
    if has_loop {
        cx.count(if directed { "probe.directed_self_loop_present" } else { "probe.undirected_self_loop_present" });
    }
    // ---- counts
    let nn = q!("number_of_nodes", g.number_of_nodes());
    if nn != n {
        bad!("C09.number_of_nodes", "number_of_nodes".to_string(), "number_of_nodes() = {} but {} nodes are stored", nn, n);
    }
    let ne = q!("number_of_edges", g.number_of_edges());
    if ne != medges {
        bad!("C09.number_of_edges", format!("number_of_edges {} parallel={}", kind, has_parallel), "number_of_edges() = {} but {} edges are stored (parallel edges count individually)", ne, medges);
    }
    let sz = q!("size(false)", g.size(false));
    if sz != medges as f64 {
        bad!("C09.size", "size(false)".to_string(), "size(false) = {} but {} edges are stored", sz, medges);
    }
    if weighted {
        let sw = q!("size(true)", g.size(true));
        let exp: f64 = snap.edges.iter().map(|e| e.2).sum();
        if !close(sw, exp) {
            bad!("C09.size", "size(true)".to_string(), "size(true) = {} but the weights sum to {}", sw, exp);
        }
    }
    // ---- degrees
    let mut deg = vec![0usize; n];
    let mut indeg = vec![0usize; n];
    let mut outdeg = vec![0usize; n];
    let mut wdeg = vec![0.0f64; n];
    let mut win = vec![0.0f64; n];
    let mut wout = vec![0.0f64; n];
    for &(u, v, w) in &snap.edges {
        deg[u] += 1;
        deg[v] += 1; // a self-loop adds two
        outdeg[u] += 1;
        indeg[v] += 1;
        wdeg[u] += w;
        wdeg[v] += w;
        wout[u] += w;
        win[v] += w;
    }
    let all_deg = q!("get_degree_for_all_nodes", g.get_degree_for_all_nodes());
    let all_wdeg = if weighted { Some(q!("get_weighted_degree_for_all_nodes", g.get_weighted_degree_for_all_nodes())) } else { None };
    let (all_in, all_out) = if directed {
        (Some(q!("get_in_degree_for_all_nodes", g.get_in_degree_for_all_nodes())), Some(q!("get_out_degree_for_all_nodes", g.get_out_degree_for_all_nodes())))
    } else {
        (None, None)
    };
    let (all_win, all_wout) = if directed && weighted {
        (Some(q!("get_weighted_in_degree_for_all_nodes", g.get_weighted_in_degree_for_all_nodes())), Some(q!("get_weighted_out_degree_for_all_nodes", g.get_weighted_out_degree_for_all_nodes())))
    } else {
        (None, None)
    };
    if all_deg.len() != n {
        bad!("C09.degree_map", "get_degree_for_all_nodes size".to_string(), "get_degree_for_all_nodes has {} entries for {} nodes", all_deg.len(), n);
    }
    let mut sum_deg = 0usize;
    let mut sum_in = 0usize;
    let mut sum_out = 0usize;
    let (mut sum_wdeg, mut sum_win, mut sum_wout) = (0.0, 0.0, 0.0);
    for v in 0..n {
        let name = snap.names[v].clone();
        let loop_here = snap.edges.iter().any(|e| e.0 == v && e.1 == v);
        let where_ = format!("{}{}", kind, if loop_here { " node with self-loop" } else { "" });
        let d = q!("get_node_degree", g.get_node_degree(name.clone()));
        match d {
            Some(d) => {
                sum_deg += d;
                if d != deg[v] {
                    bad!("C09.degree", format!("get_node_degree {}", where_), "get_node_degree({:?}) = {} but the stored edges give {} (edge ends at the node, a self-loop adds two)", name, d, deg[v]);
                }
                if all_deg.get(&name) != Some(&d) {
                    bad!("C09.degree_map", "get_degree_for_all_nodes".to_string(), "get_degree_for_all_nodes[{:?}] = {:?} but get_node_degree = {}", name, all_deg.get(&name), d);
                }
            }
            None => bad!("C09.degree", "get_node_degree None".to_string(), "get_node_degree({:?}) = None for an existing node", name),
        }
        if directed {
            let i = q!("get_node_in_degree", g.get_node_in_degree(name.clone()));
            let o = q!("get_node_out_degree", g.get_node_out_degree(name.clone()));
            match (i, o) {
                (Some(i), Some(o)) => {
                    sum_in += i;
                    sum_out += o;
                    if i != indeg[v] || o != outdeg[v] {
                        bad!("C09.in_out_degree", format!("in/out degree {}", where_), "in/out degree of {:?} = {}/{} but the stored edges give {}/{}", name, i, o, indeg[v], outdeg[v]);
                    }
                    if d != Some(i + o) {
                        bad!("C09.handshake", format!("degree != in + out {}", where_), "degree({:?}) = {:?} but in-degree + out-degree = {} + {}", name, d, i, o);
                    }
                    let mi = all_in.as_ref().and_then(|r| r.as_ref().ok()).and_then(|m| m.get(&name).copied());
                    let mo = all_out.as_ref().and_then(|r| r.as_ref().ok()).and_then(|m| m.get(&name).copied());
                    if mi != Some(i) || mo != Some(o) {
                        bad!("C09.degree_map", "in/out degree maps".to_string(), "get_in/out_degree_for_all_nodes[{:?}] = {:?}/{:?} but the per-node calls give {}/{}", name, mi, mo, i, o);
                    }
                }
                _ => bad!("C09.in_out_degree", "in/out degree None".to_string(), "in/out degree of existing node {:?} on a directed graph = {:?}/{:?}", name, i, o),
            }
        }
        if weighted {
            let wd = q!("get_node_weighted_degree", g.get_node_weighted_degree(name.clone()));
            match wd {
                Some(wd) => {
                    sum_wdeg += wd;
                    if !close(wd, wdeg[v]) {
                        bad!("C09.weighted_degree", format!("get_node_weighted_degree {}", where_), "get_node_weighted_degree({:?}) = {} but the stored edges give {}", name, wd, wdeg[v]);
                    }
                    let mw = all_wdeg.as_ref().and_then(|m| m.get(&name).copied());
                    if mw.map_or(true, |x| !close(x, wd)) {
                        bad!("C09.degree_map", "weighted degree map".to_string(), "get_weighted_degree_for_all_nodes[{:?}] = {:?} but the per-node call gives {}", name, mw, wd);
                    }
                }
                None => bad!("C09.weighted_degree", "weighted degree None".to_string(), "get_node_weighted_degree({:?}) = None", name),
            }
            if directed {
                let i = q!("get_node_weighted_in_degree", g.get_node_weighted_in_degree(name.clone()));
                let o = q!("get_node_weighted_out_degree", g.get_node_weighted_out_degree(name.clone()));
                match (i, o) {
                    (Some(i), Some(o)) => {
                        sum_win += i;
                        sum_wout += o;
                        if !close(i, win[v]) || !close(o, wout[v]) {
                            bad!("C09.weighted_in_out_degree", format!("weighted in/out degree {}", where_), "weighted in/out degree of {:?} = {}/{} but the stored edges give {}/{}", name, i, o, win[v], wout[v]);
                        }
                        if wd.map_or(true, |w| !close(w, i + o)) {
                            bad!("C09.handshake", format!("weighted degree != in + out {}", where_), "weighted degree({:?}) = {:?} but weighted in + out = {} + {}", name, wd, i, o);
                        }
                        let mi = all_win.as_ref().and_then(|r| r.as_ref().ok()).and_then(|m| m.get(&name).copied());
                        let mo = all_wout.as_ref().and_then(|r| r.as_ref().ok()).and_then(|m| m.get(&name).copied());
                        if mi.map_or(true, |x| !close(x, i)) || mo.map_or(true, |x| !close(x, o)) {
                            bad!("C09.degree_map", "weighted in/out maps".to_string(), "weighted in/out maps at {:?} = {:?}/{:?} but per-node {}/{}", name, mi, mo, i, o);
                        }
                    }
                    _ => bad!("C09.weighted_in_out_degree", "weighted in/out None".to_string(), "weighted in/out degree of {:?} = {:?}/{:?}", name, i, o),
                }
            }
        }
    }
    if sum_deg != 2 * medges {
        bad!("C09.handshake", format!("sum of degrees {}", kind), "the degrees sum to {} but twice the number of edges is {}", sum_deg, 2 * medges);
    }
    if directed && (sum_in != medges || sum_out != medges) {
        bad!("C09.handshake", format!("sum of in/out degrees {}", kind), "in-degrees sum to {}, out-degrees to {}, but there are {} edges", sum_in, sum_out, medges);
    }
    if weighted {
        let tot: f64 = snap.edges.iter().map(|e| e.2).sum();
        if !close(sum_wdeg, 2.0 * tot) || (directed && (!close(sum_win, tot) || !close(sum_wout, tot))) {
            bad!("C09.handshake", format!("weighted sums {}", kind), "weighted degrees sum to {} (in {}, out {}) but the total weight is {}", sum_wdeg, sum_win, sum_wout, tot);
        }
    }
    // ---- degree centrality, density
    if n >= 2 {
        let dc = q!("degree_centrality", degree_centrality(g));
        for v in 0..n {
            let got = dc.get(&snap.names[v]).copied().unwrap_or(f64::NAN);
            let exp = deg[v] as f64 / (n as f64 - 1.0);
            if !close(got, exp) {
                bad!("C09.degree_centrality", format!("degree_centrality {}", kind), "degree_centrality[{:?}] = {} but degree/(n-1) = {}", snap.names[v], got, exp);
            }
        }
        if !specs.multi {
            let dens = q!("get_density", g.get_density());
            let exp = medges as f64 / (n as f64 * (n as f64 - 1.0)) * if directed { 1.0 } else { 2.0 };
            if !close(dens, exp) {
                bad!("C09.density", format!("get_density {}", kind), "get_density() = {} but m/(n(n-1)){} = {}", dens, if directed { "" } else { " doubled" }, exp);
            }
        }
    }
    // ---- adjacency matrix
    let mat = q!("get_sparse_adjacency_matrix", g.get_sparse_adjacency_matrix().map(|mx| {
        let mut v: Vec<(usize, usize, f64)> = mx.iter().map(|(x, (i, j))| (i, j, *x)).collect();
        v.sort_by(|a, b| (a.0, a.1).cmp(&(b.0, b.1)));
        (mx.rows(), mx.cols(), v)
    }));
    if specs.multi {
        match mat {
            Err(e) if real::kind(&e.kind) == K::WrongMethod => {}
            other => bad!("C09.matrix", "matrix on multi-edge graph".to_string(), "get_sparse_adjacency_matrix on a multi-edge graph must be WrongMethod, got {:?}", other.map(|x| x.2.len()).map_err(|e| e.kind)),
        }
    } else {
        match mat {
            Err(e) => bad!("C09.matrix", "matrix failed".to_string(), "get_sparse_adjacency_matrix failed: {:?}", e.kind),
            Ok((r, c, entries)) => {
                if r != n || c != n {
                    bad!("C09.matrix", "matrix shape".to_string(), "matrix is {}x{} for {} nodes", r, c, n);
                }
                let mut exp: Vec<(usize, usize, f64)> = vec![];
                for &(u, v, w) in &snap.edges {
                    let w = if w.is_nan() { 1.0 } else { w };
                    exp.push((u, v, w));
                    if !directed && u != v {
                        exp.push((v, u, w));
                    }
                }
                exp.sort_by(|a, b| (a.0, a.1).cmp(&(b.0, b.1)));
                let same = entries.len() == exp.len() && entries.iter().zip(exp.iter()).all(|(a, b)| a.0 == b.0 && a.1 == b.1 && (a.2 == b.2 || close(a.2, b.2)));
                if !same {
                    let pattern_ok = entries.iter().map(|e| (e.0, e.1)).collect::<Vec<_>>() == exp.iter().map(|e| (e.0, e.1)).collect::<Vec<_>>();
                    let sig = if pattern_ok {
                        format!("matrix values {} {}", kind, if weighted { "weighted" } else { "unweighted" })
                    } else {
                        format!("matrix pattern {}", kind)
                    };
                    bad!("C09.matrix", sig, "adjacency matrix entries (row, col, value) = {:?} but the stored edges give {:?} (by node position; 1 for an unweighted edge; symmetric when undirected)", entries, exp);
                }
                cx.count("matrix_checks");
            }
        }
    }
    cx.count("count_checks");
}

impl Prop for C09Prop {
    fn id(&self) -> &'static str {
        "C09"
    }
    fn runs(&self, tier: Tier) -> u64 {
        match tier {
            Tier::Quick => 120_000,
            Tier::Thorough => 2_400_000,
        }
    }
    fn gen(&self, seed: u64, idx: u64, _tier: Tier) -> Case {
        let mut rng = Rng::new(seed, "config");
        let specs = Specs::from_index(idx as usize % 96);
        let mut case = Case::new("C09", seed, specs);
        {
            let mut hr = Rng::new(seed, "config.huge");
            if hr.chance(1, 4000) {
                // a graph of thousands of edges (strategy thresholds), then a short tail
                let regime = *hr.pick(&[gen::WeightRegime::AllNan, gen::WeightRegime::Dyadic, gen::WeightRegime::SmallInt, gen::WeightRegime::Nasty, gen::WeightRegime::Mixed]);
                let mut wr = Rng::new(seed, "workload.huge");
                case.ops = gen::gen_huge_history_v(&mut wr, specs, regime, false, &[0, 1, 2, 4]);
                case.params.put("source", crate::core::json::J::s("history loading thousands of edges"));
                case.envs = vec![Env { keying: if hr.chance(1, 2) { 0 } else { seed | 1 }, pool: if hr.chance(1, 8) { 1 } else { 2 + hr.below(15) }, sched: crate::core::rng::mix(seed, 78) }];
                return case;
            }
        }
        let regime = *rng.pick(&[gen::WeightRegime::AllNan, gen::WeightRegime::Dyadic, gen::WeightRegime::SmallInt, gen::WeightRegime::Nasty, gen::WeightRegime::Mixed, gen::WeightRegime::Extreme, gen::WeightRegime::NearEqual, gen::WeightRegime::Tiny]);
        let o = gen::HistOpts { specs, max_ops: 24, regime, derived: false, restart: true, names_min: 2, names_max: 6, dup_bias: 35, big: rng.chance(1, 100) };
        let mut wr = Rng::new(seed, "workload");
        case.ops = gen::gen_history(&mut wr, &o);
        let k = gen::keyings(seed, 2);
        case.envs = vec![Env { keying: k[(idx % 2) as usize], pool: gen::pool_size(seed, 0), sched: crate::core::rng::mix(seed, 77) }];
        case
    }
    fn run_env(&self, case: &Case, _env: &Env, cx: &mut Ctx) {
        let arms = Arms { c09: true, ..Default::default() };
        if let Some((_g, m, _)) = lifecycle::drive(case, cx, &arms) {
            let loops = m.edges.iter().any(|e| e.u == e.v);
            let parallel = m.edges.iter().enumerate().any(|(i, e)| m.edges[..i].iter().any(|f| m.joins(f, &e.u, &e.v)));
            let n: Vec<&String> = m.nodes.iter().map(|n| &n.0).collect();
            let order_differs = n.windows(2).any(|w| w[0] > w[1]);
            if !m.edges.is_empty() && (loops || parallel || order_differs) {
                cx.nt.push(crate::core::rng::mix(case.specs.index() as u64, lifecycle::ops_hash(&case.ops)));
            }
        }
    }
    fn cross(&self, _case: &Case, _results: &[EnvResult], _cx: &mut Ctx) {}
    fn rule(&self) -> String {
        "lifecycle histories (<= 24 ops) over all 96 specs; after EVERY op: number_of_nodes/edges, size(false/true), per-node degree / in / out / weighted variants vs the edge multiset shown by get_all_edges, handshake identities, *_for_all_nodes maps vs per-node calls, degree_centrality, get_density (single-edge, n >= 2), sparse adjacency matrix entries by node position (WrongMethod on multi-edge). distinct_nontrivial = distinct (specs, history) whose final graph has edges and a self-loop, parallel edges or a name order different from insertion order; one case in 4000 loads 2 100 - 12 500 edges (one to three batches or the constructor, same edge values re-submitted on multi-edge graphs) into 45-180 nodes and continues with a short tail (strategy thresholds); the large histories come in variants: dense (45-180 nodes), 2 048 - 2 600 nodes declared in one call with a few names repeated, a hub with 1 100 - 1 600 neighbours; in half of them a load of 260-420 edges into ANOTHER graph is rejected part-way on the same thread first (fault, then recovery, at scale); also 10 001 - 13 000 nodes, groups of more than 1 024 parallel edges on one pair".into()
    }
    fn assumptions(&self) -> Vec<String> {
        vec!["weighted quantities at 1e-9; weighted variants only on graphs whose edges all carry weights".into(), "that in-/out- queries refuse undirected graphs is C02's business, not asserted here".into()]
    }
}
