//! C18 — eigenvector centrality returns a unit-norm approximate dominant eigenvector.
use super::algo::{self, AlgoGen};
use super::{Prop, Tier};
use crate::core::case::*;
use crate::core::json::J;
use crate::core::rng::Rng;
use crate::core::rt;
use crate::gen::{self, WeightRegime};
use crate::oracle::eigen::Eigen;
use crate::runner::Ctx;
use graphrs::algorithms::centrality::eigenvector::eigenvector_centrality;
use graphrs::ErrorKind;

pub struct C18Prop;
pub static C18: C18Prop = C18Prop;

impl Prop for C18Prop {
    fn id(&self) -> &'static str {
        "C18"
    }
    fn runs(&self, tier: Tier) -> u64 {
        match tier {
            Tier::Quick => 12_000,
            Tier::Thorough => 300_000,
        }
    }
    fn gen(&self, seed: u64, idx: u64, tier: Tier) -> Case {
        let mut case = AlgoGen {
            large_pct: 25,
            n_small: (1, 10),
            n_large: (11, 40),
            regimes: vec![WeightRegime::AllNan, WeightRegime::Dyadic, WeightRegime::Nasty, WeightRegime::MostlyOnes, WeightRegime::ZeroDyadic, WeightRegime::SmallInt, WeightRegime::Mixed],
            kinds: AlgoGen::single_edge_kinds(),
            shapes: None,
            lifecycle_pct: 25,
            keyings: 1,
            boundary_per_mille: 0,
            huge_one_in: 1200,
            hub_one_in: 500,
        }
        .gen("C18", seed, idx);
        let big = idx % 200 == 199;
        if big {
            let mut wr = Rng::new(seed, "workload.big");
            let (d, _m, l) = crate::gen::kind_from(idx as usize / 200 % 8);
            let n = *wr.pick(&[521usize, 523, 600]);
            let regime = *wr.pick(&[WeightRegime::AllNan, WeightRegime::SmallInt]);
            let (specs, ops) = crate::gen::gen_graph(&mut wr, &crate::gen::GraphOpts { directed: d, multi: false, self_loops: l, n_min: n, n_max: n, regime, shape: Some(crate::gen::Shape::SparseRandom), sprinkle: true });
            case.specs = specs;
            case.ops = ops;
        }
        let mut rng = Rng::new(seed, "c18.args");
        case.params.put("max_iter", J::U(*rng.pick(&[1u64, 2, 5, 20, 100, 100, 1000])));
        let tol = 10f64.powf(-(2.0 + rng.unit() * 10.0)); // [1e-12, 1e-2]
        case.params.put("tolerance", J::F(tol));
        case.params.put("weighted", J::Bool(rng.chance(1, 2)));
        if big {
            // let the iteration actually converge on the large graphs
            case.params.put("max_iter", J::U(1000));
            case.params.put("tolerance", J::F(*rng.pick(&[1e-3, 1e-5, 1e-7])));
        }
        let k = match tier {
            Tier::Quick => 4,
            Tier::Thorough => 8,
        };
        case.envs = gen::envs(seed, k);
        case
    }
    fn run_env(&self, case: &Case, env: &Env, cx: &mut Ctx) {
        let b = match algo::build(case, cx) {
            Some(b) => b,
            None => return,
        };
        let (g, snap) = (&b.g, &b.snap);
        let n = snap.n();
        if n == 0 || snap.edges.iter().any(|e| e.2 < 0.0) {
            return;
        }
        let budget = rt::budget(n, snap.edges.len()) * 4;
        let max_iter = case.p_u64("max_iter").unwrap_or(100) as u32;
        let tol = case.p_f64("tolerance").unwrap_or(1e-6);
        let weighted = case.p_bool("weighted").unwrap_or(false);
        let r = match rt::call("eigenvector_centrality", budget, || eigenvector_centrality(g, weighted, Some(max_iter), Some(tol))) {
            Ok(r) => r,
            Err(p) => {
                cx.fail("C18.panic", "eigenvector_centrality panicked", format!("eigenvector_centrality(weighted={}, max_iter={}, tol={}) panicked (keying {}): {} [{}]", weighted, max_iter, tol, env.keying, p.0, case.specs.short()));
                return;
            }
        };
        let orc = Eigen::new(snap, weighted);
        // reference iteration: is convergence within max_iter certain / impossible / too close to call?
        let changes = orc.changes(max_iter as usize);
        let thr = n as f64 * tol;
        let band = |d: f64| -> i32 {
            // -1: clearly below the threshold, +1: clearly above, 0: too close (summation order may decide)
            let margin = 1e-9 * (1.0 + thr) + 1e-6 * thr;
            if d < thr - margin {
                -1
            } else if d > thr + margin {
                1
            } else {
                0
            }
        };
        let mut certain_ok = false;
        let mut possible_ok = false;
        // the iteration at which the documented iteration stops, when every decision up to it is clear-cut
        let mut stops_at: Option<usize> = None;
        for (i, d) in changes.iter().enumerate() {
            match band(*d) {
                -1 => {
                    certain_ok = true;
                    possible_ok = true;
                    stops_at = Some(i + 1);
                    break;
                }
                0 => {
                    possible_ok = true;
                    // after an undecided iteration the reference and the library may be out of step: stop judging
                    break;
                }
                _ => {}
            }
        }
        match r {
            Ok(x) => {
                cx.count("converged");
                if x.len() != n || !snap.names.iter().all(|k| x.contains_key(k)) {
                    cx.fail("C18.entries", "one entry per node", format!("{} entries for {} nodes", x.len(), n));
                    return;
                }
                let v: Vec<f64> = snap.names.iter().map(|k| x[k]).collect();
                if v.iter().any(|a| !(*a >= 0.0)) {
                    cx.fail("C18.negative", "negative or NaN entry", format!("entries must be non-negative: {:?}", v));
                    return;
                }
                let norm = v.iter().map(|a| a * a).sum::<f64>().sqrt();
                if (norm - 1.0).abs() > 1e-9 {
                    cx.fail("C18.norm", "Euclidean norm != 1", format!("the Euclidean norm of the result is {} (weighted={}, max_iter={}, tol={}, keying {}) [{}]", norm, weighted, max_iter, tol, env.keying, case.specs.short()));
                    return;
                }
                // approximate fixed point: one further step moves it by no more than the tolerance-derived bound
                let y = orc.step(&v);
                let moved: f64 = y.iter().zip(v.iter()).map(|(a, b)| (a - b).abs()).sum();
                let bound = 2.0 * (n as f64).sqrt() * (1.0 + orc.frob) * n as f64 * tol + 1e-9;
                if moved > bound {
                    let sig = format!("not a fixed point {} {}", if snap.directed { "directed" } else { "undirected" }, if weighted { "weighted" } else { "unweighted" });
                    cx.fail("C18.fixed_point", &sig, format!("one further step x -> normalise(x + A^T x) moves the returned vector by {} in L1, more than the bound {} that follows from the stopping rule (n={}, tol={}, max_iter={}, weighted={}, keying {}) [{}]", moved, bound, n, tol, max_iter, weighted, env.keying, case.specs.short()));
                    return;
                }
                // when every stopping decision of the documented iteration is clear-cut, the library stops at the same
                // iteration and must return that iterate (up to the rounding of sums taken in another order): the
                // bound above is loose for graphs of thousands of nodes, this comparison is not
                if let Some(k) = stops_at {
                    let xr = orc.iterate(k);
                    let diff: f64 = xr.iter().zip(v.iter()).map(|(a, b)| (a - b).abs()).sum();
                    if diff > 1e-6 {
                        let sig = format!("not the documented iterate {} {}", if snap.directed { "directed" } else { "undirected" }, if weighted { "weighted" } else { "unweighted" });
                        cx.fail("C18.fixed_point", &sig, format!("the documented iteration stops after {} steps (every decision clear-cut); the returned vector differs from that iterate by {} in L1 (n={}, tol={}, max_iter={}, weighted={}, keying {}) [{}]", k, diff, n, tol, max_iter, weighted, env.keying, case.specs.short()));
                        return;
                    }
                    cx.count("compared_with_the_documented_iterate");
                }
                if !possible_ok && changes.len() == max_iter as usize {
                    cx.fail("C18.returned_unconverged", "Ok although convergence within max_iter is impossible", format!("returned Ok but the documented iteration cannot meet n*tol = {} within {} iterations (reference changes end with {:?})", thr, max_iter, changes.iter().rev().take(3).collect::<Vec<_>>()));
                    return;
                }
            }
            Err(e) if matches!(e.kind, ErrorKind::PowerIterationFailedConvergence) => {
                cx.count("exhausted");
                if certain_ok {
                    cx.fail("C18.spurious_failure", "PowerIterationFailedConvergence although convergence is certain", format!("PowerIterationFailedConvergence but the documented iteration meets n*tol = {} after {} of {} iterations (weighted={}, keying {}) [{}]", thr, changes.iter().position(|d| band(*d) == -1).map(|i| i + 1).unwrap_or(0), max_iter, weighted, env.keying, case.specs.short()));
                    return;
                }
            }
            Err(e) => {
                cx.fail("C18.error", "unexpected error kind", format!("eigenvector_centrality failed with {:?}", e.kind));
                return;
            }
        }
        if env.keying == 0 {
            cx.states.push(super::lifecycle::ops_hash(&case.ops));
            if snap.edges.len() >= 2 {
                cx.nt.push(crate::core::rng::mix(super::lifecycle::ops_hash(&case.ops), crate::core::rng::hash_str(&case.params.to_string())));
            }
        }
    }
    fn rule(&self) -> String {
        "single-edge graphs (directed / undirected, with self-loops, n <= 40), non-negative weights (dyadic, decimal, with zeros) or unweighted, max_iter in {1,2,5,20,100,1000}, tolerance log-uniform in [1e-12,1e-2], under 4 (quick) / 8 (thorough) hash keyings (the implementation sums in hash order); Ok(x): one entry per node, entries >= 0, | ||x||_2 - 1 | <= 1e-9, and one further step normalise(x + A^T x) moves x by at most 2 sqrt(n) (1+||A||_F) n tol + 1e-9 in L1; exhaustion: a reference iteration with fixed summation order decides whether convergence within max_iter is certain (then Err is a violation), impossible (then Ok is a violation) or too close to call (either). distinct_nontrivial = distinct (graph, arguments) with >= 2 edges; one case in 1200 is a dense graph (1-3 blocks, 60-300 nodes) with 2 100 - 12 500 stored edges under a pool of 2-16 workers (strategy thresholds); in a third of the cases a battery of valid unjudged calls runs first on a sibling graph (same names and edges, other node order), in a fifth the graph is queried on the same object before its last one to three operations are applied (DESIGN.md 0.2); one case in 500 has 4 150 - 4 600 nodes with a hub adjacent to more than 4 096 of them (a self-loop on the hub half of the time); when every stopping decision of the documented iteration is clear-cut the returned vector is compared with that very iterate at 1e-6 in L1 (the fixed-point bound is loose for thousands of nodes)".into()
    }
    fn assumptions(&self) -> Vec<String> {
        vec!["the fixed-point bound follows from the stopping rule and the Lipschitz constant of the normalised step (x >= 0 implies ||x + A^T x||_2 >= 1)".into(), "either outcome is accepted inside the 'too close' band around the stopping threshold".into()]
    }
}
