use crate::core::case::*;
use crate::core::model::{Expect, Model, Out};
use crate::core::real::{self, Obs, G};
use crate::core::rt::Panicked;
use crate::runner::Ctx;
pub fn derived_step(_i: usize, op: &Op, g: &mut G, _pre: &Obs, _exp: &Expect, _m: &Model, _cx: &mut Ctx) -> Result<Out, Panicked> {
    real::apply(g, op)
}
