//! C15 — derived graphs (subgraph, reverse, reweight, collapse) are exactly as specified.
use super::lifecycle::{self, Arms};
use super::{Prop, Tier};
use crate::core::case::*;
use crate::core::model::{Expect, Model, Out};
use crate::core::real::{self, Obs, G};
use crate::core::rng::Rng;
use crate::core::rt::{self, Panicked};
use crate::gen;
use crate::runner::{Ctx, EnvResult};

pub struct C15Prop;
pub static C15: C15Prop = C15Prop;
const B: u64 = real::OP_BUDGET;

/// Execute a derived operation by hand so that the source can be inspected afterwards.
/// `m` is the model AFTER the operation (what the result must be), `pre` the source before.
pub fn derived_step(step: usize, op: &Op, g: &mut G, pre: &Obs, exp: &Expect, m: &Model, cx: &mut Ctx) -> Result<Out, Panicked> {
    let src_specs = Specs::from_real(&g.specs);
    let label = op.name();
    let r: Result<Result<G, graphrs::Error>, Panicked> = match op {
        Op::Subgraph(names) => rt::call(label, B, || Ok(g.get_subgraph(names))),
        Op::Reverse => rt::call(label, B, || g.reverse()),
        Op::SetWeights(w) => rt::call(label, B, || Ok(g.set_all_edge_weights(f64::from_bits(*w)))),
        Op::ToSingle => rt::call(label, B, || g.to_single_edges()),
        _ => unreachable!(),
    };
    cx.count(&format!("derived.{}", label));
    let r = match r {
        Ok(r) => r,
        Err(p) => {
            cx.fail("C15.panic", &format!("{} panicked", label), format!("step {}: {} panicked: {} [{}]; source nodes {:?} edges {:?}", step, op.to_json().to_string(), p.0, src_specs.short(), pre.nodes, pre.edges));
            return Err(p);
        }
    };
    // the source is untouched
    match real::observe(g) {
        Ok(after) => {
            if &after != pre {
                cx.fail("C15.source_changed", label, format!("step {}: {} changed its source graph: before {:?} / {:?}, after {:?} / {:?}", step, label, pre.nodes, pre.edges, after.nodes, after.edges));
            }
        }
        Err(p) => return Err(p),
    }
    let out = match &r {
        Ok(_) => Out::Ok,
        Err(e) => Out::Err(real::kind(&e.kind)),
    };
    if !exp.accepts(out) {
        cx.fail("C15.outcome", &format!("{} expected {:?} got {:?}", label, exp.outs, out), format!("step {}: {} on a {} graph returned {:?}, expected {:?}", step, label, src_specs.short(), out, exp.outs));
        return Ok(out);
    }
    if let Ok(new) = r {
        match real::observe(&new) {
            Ok(o) => {
                let specs_new = Specs::from_real(&new.specs);
                if specs_new != m.specs {
                    cx.fail("C15.result_specs", label, format!("step {}: the result of {} has specs [{}], expected [{}]", step, label, specs_new.short(), m.specs.short()));
                } else if let Some(d) = lifecycle::state_mismatch(&o, m) {
                    cx.fail("C15.result", label, format!("step {}: {} on [{}] source nodes {:?} edges {:?}: {}", step, op.to_json().to_string(), src_specs.short(), pre.nodes, lifecycle::show_edges(&pre.canon(false)), d));
                }
                if o.edges.len() != pre.edges.len() || o.nodes.len() != pre.nodes.len() {
                    cx.count("probe.derived_result_smaller_than_source");
                }
            }
            Err(p) => {
                cx.fail("C15.panic", "observe result", format!("step {}: reading the result of {} panicked: {}", step, label, p.0));
                return Err(p);
            }
        }
        if matches!(op, Op::Reverse) && cx.viol.is_empty() {
            // applying it twice restores the graph
            match rt::call("reverse(reverse)", B, || new.reverse()) {
                Ok(Ok(back)) => {
                    if let Ok(ob) = real::observe(&back) {
                        if ob.nodes != pre.nodes || ob.canon(false) != pre.canon(false) {
                            cx.fail("C15.reverse_involution", "reverse twice", format!("step {}: reverse(reverse(g)) differs from g: {:?} / {:?} vs {:?} / {:?}", step, ob.nodes, lifecycle::show_edges(&ob.canon(false)), pre.nodes, lifecycle::show_edges(&pre.canon(false))));
                        }
                    }
                }
                Ok(Err(e)) => cx.fail("C15.reverse_involution", "reverse twice failed", format!("step {}: reversing the reversed graph failed: {:?}", step, e.kind)),
                Err(p) => cx.fail("C15.panic", "reverse twice panicked", format!("step {}: reversing the reversed graph panicked: {}", step, p.0)),
            }
        }
        if cx.viol.is_empty() {
            // the result satisfies C02 / C03 (their oracles, reported under C15)
            let mut sub = Ctx::default();
            let case = Case::new("C15", 0, m.specs);
            let mut m2 = m.clone();
            m2.approx_weights = false;
            if lifecycle::state_mismatch(&real::observe(&new).unwrap(), &m2).is_none() || m.approx_weights {
                super::c02::check_views(step, &new, &m2_synced(&new, m), !m.approx_weights, &case, &mut sub);
            }
            // (no searches on graphs whose weights reach the scale of f64::MAX: graphrs uses that value as its
            // "unreached" marker, and no property speaks about searches at that magnitude - App. E 15)
            let huge_weights = real::observe(&new).map(|o| o.edges.iter().any(|e| f64::from_bits(e.2).abs() >= 1e300)).unwrap_or(false);
            if sub.viol.is_empty() && !huge_weights {
                super::c03::check_traversal(step, op, &new, m, &case, &mut sub);
            }
            for v in sub.viol {
                cx.fail(&format!("C15.result_{}", v.oracle.replace('.', "_")), &v.sig, format!("the graph returned by {} violates {}: {}", label, v.oracle, v.detail));
            }
        }
        *g = new;
    }
    Ok(out)
}

/// the model with weights adopted from the real result (after to_single_edges sums)
fn m2_synced(g: &G, m: &Model) -> Model {
    let mut m2 = m.clone();
    if m.approx_weights {
        if let Ok(o) = real::observe(g) {
            m2.edges = o.edges.iter().map(|e| crate::core::model::ME { u: e.0.clone(), v: e.1.clone(), w: e.2, attr: e.3 }).collect();
            m2.approx_weights = false;
            m2.attrs_unspecified = false;
        }
    }
    m2
}

impl Prop for C15Prop {
    fn id(&self) -> &'static str {
        "C15"
    }
    fn runs(&self, tier: Tier) -> u64 {
        match tier {
            Tier::Quick => 100_000,
            Tier::Thorough => 2_000_000,
        }
    }
    fn gen(&self, seed: u64, idx: u64, _tier: Tier) -> Case {
        let mut rng = Rng::new(seed, "config");
        let specs = Specs::from_index(idx as usize % 96);
        let mut case = Case::new("C15", seed, specs);
        {
            let mut hr = Rng::new(seed, "config.huge");
            if hr.chance(1, 1200) {
                // a graph of thousands of edges (strategy thresholds), then a short tail
                // half of the large histories use weights whose sums overflow (1e308 ...): the sum of a group of
                // parallel edges is then +inf, and must stay +inf
                let regime = if hr.chance(1, 2) { gen::WeightRegime::Overflowing } else { gen::regime_any(&mut hr, true) };
                let mut wr = Rng::new(seed, "workload.huge");
                case.ops = gen::gen_huge_history_v(&mut wr, specs, regime, true, &[0, 0, 1, 2]);
                case.params.put("source", crate::core::json::J::s("history loading thousands of edges"));
                case.envs = vec![Env { keying: if hr.chance(1, 2) { 0 } else { seed | 1 }, pool: if hr.chance(1, 8) { 1 } else { 2 + hr.below(15) }, sched: crate::core::rng::mix(seed, 78) }];
                return case;
            }
        }
        let o = gen::HistOpts { specs, max_ops: 24, regime: gen::regime_any(&mut rng, true), derived: true, restart: true, names_min: 3, names_max: if rng.chance(1, 3) { 14 } else { 6 }, dup_bias: 35, big: rng.chance(1, 300) };
        let mut wr = Rng::new(seed, "workload");
        case.ops = gen::gen_history(&mut wr, &o);
        if !case.ops.iter().any(|o| o.is_derived()) {
            // every run exercises at least one derived operation
            let names = case.universe();
            let op = match rng.below(4) {
                0 => Op::Subgraph(names.iter().filter(|_| rng.chance(1, 2)).cloned().collect()),
                1 => Op::Reverse,
                2 => Op::SetWeights(wbits(2.5)),
                _ => Op::ToSingle,
            };
            case.ops.push(op);
        }
        case.envs = gen::envs(seed, 2);
        case
    }
    fn run_env(&self, case: &Case, _env: &Env, cx: &mut Ctx) {
        // C01's oracles stay armed so that the history continuing on a derived graph is checked too,
        // but only C15's own findings are C15's to report: C01 violations before the first derived op are dropped
        let arms = Arms { c15: true, c01: true, ..Default::default() };
        let end = lifecycle::drive(case, cx, &arms);
        if let Some((g, _, _)) = &end {
            let names: Vec<String> = g.get_all_node_names().into_iter().cloned().collect();
            if cx.viol.is_empty() && names.len() >= 4 && names.len() <= 200 && Rng::new(case.seed, "config.wrap").chance(1, 3000) {
                // counters that wrap: the same selection again after exactly 2^8, 2^15, 2^16 (+-1) calls on this thread
                if let Ok(tiny) = real::build(Specs::kind(g.specs.directed, false, false), &[Op::AddNodes(vec![("w".to_string(), None), ("v".to_string(), None)])]) {
                    let half = names.len() / 2;
                    let (s1, s2): (Vec<String>, Vec<String>) = (names[..half].to_vec(), names[half..].to_vec());
                    let w = vec!["w".to_string()];
                    crate::props::algo::wrap_probe(
                        cx,
                        "C15",
                        "get_subgraph",
                        1,
                        |k| {
                            let sel = if k % 2 == 0 { &s1 } else { &s2 };
                            let sub = rt::call("get_subgraph", B, || g.get_subgraph(sel)).ok()?;
                            let o = real::observe(&sub).ok()?;
                            Some(format!("{:?} {:?}", o.nodes, o.canon(false)))
                        },
                        || {
                            let _ = rt::call("get_subgraph(filler)", B, || tiny.get_subgraph(&w).number_of_nodes());
                        },
                    );
                }
            }
        }
        let first_derived = case.ops.iter().position(|o| o.is_derived()).unwrap_or(usize::MAX);
        let _ = first_derived;
        for v in cx.viol.iter_mut() {
            if v.oracle.starts_with("C01.") {
                v.oracle = format!("C15.continued_{}", v.oracle.replace('.', "_"));
            }
        }
        let derived_ok = cx.counters.iter().filter(|(k, _)| k.starts_with("derived.")).map(|(_, v)| *v).sum::<u64>();
        if derived_ok > 0 {
            cx.nt.push(crate::core::rng::mix(case.specs.index() as u64, lifecycle::ops_hash(&case.ops)));
        }
    }
    fn cross(&self, _case: &Case, results: &[EnvResult], cx: &mut Ctx) {
        let _ = (results, cx);
    }
    fn rule(&self) -> String {
        "lifecycle histories over all 96 specs in which get_subgraph / reverse / set_all_edge_weights / to_single_edges are applied at random points (source = a graph produced by duplicate policies, re-added nodes, restarts) and the history continues on the result; each derived op: outcome (WrongMethod for the wrong kind), result vs the model's definition (nodes in original order with attributes, exact edge multiset, summed weights at 1e-9), result specs, source graph unchanged, reverse twice = identity, C02/C03 oracles on the result, C01 oracles on the continued history; 2 hash keyings. distinct_nontrivial = distinct (specs, history) with >= 1 derived operation executed; one case in 1200 loads 2 100 - 12 500 edges (one to three batches or the constructor, same edge values re-submitted on multi-edge graphs) into 45-180 nodes and continues with a short tail (strategy thresholds); the large histories come in variants: dense (45-180 nodes), 2 048 - 2 600 nodes declared in one call, a hub with 1 100 - 1 600 neighbours; in half of them a load of 260-420 edges into ANOTHER graph is rejected part-way on the same thread first (fault, then recovery, at scale); histories with 10 001 - 13 000 nodes and with groups of more than 1 024 parallel edges on one pair; one case in 3 000 repeats get_subgraph with alternating selections after exactly 2^8, 2^15, 2^16 (+-1) further calls on the thread (counter wrap-around); half of the large histories use finite weights whose sums overflow (1e308 ...) and two thirds of those on multi-edge graphs end with to_single_edges: the weight of a collapsed group of more than 1 024 parallel edges must be +inf (searches are not run on graphs with weights of that magnitude)".into()
    }
    fn assumptions(&self) -> Vec<String> {
        vec!["edge attributes of to_single_edges results are not specified and not compared".into(), "summed weights compared at 1e-9 relative (then adopted by the model)".into()]
    }
}
