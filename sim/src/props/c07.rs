//! C07 — parallel execution is unobservable: results do not depend on threads or schedule.
//! The search is over schedules: the same graph under the same hash keying is evaluated with a pool of one
//! worker (serial path) and under several simulated pools (size, split tree, steals, leaf order all drawn
//! from the schedule seed); every output must be bit-for-bit identical.
use super::algo::{self, AlgoGen};
use super::{Prop, Tier};
use crate::core::case::*;
use crate::core::json::J;
use crate::core::rng::Rng;
use crate::core::rt;
use crate::gen::WeightRegime;
use crate::oracle::dist::DistOracle;
use crate::pool;
use crate::runner::{Ctx, EnvResult};
use graphrs::algorithms::centrality::{betweenness, closeness};
use graphrs::algorithms::shortest_path::dijkstra;
use std::collections::BTreeMap;

pub struct C07Prop;
pub static C07: C07Prop = C07Prop;

fn f64map_bits(m: std::collections::HashMap<String, f64>) -> String {
    let b: BTreeMap<String, f64> = m.into_iter().collect();
    b.iter().map(|(k, v)| format!("{:?}:{:016x};", k, v.to_bits())).collect()
}

impl Prop for C07Prop {
    fn id(&self) -> &'static str {
        "C07"
    }
    fn runs(&self, tier: Tier) -> u64 {
        match tier {
            Tier::Quick => 3_500,
            Tier::Thorough => 40_000,
        }
    }
    fn gen(&self, seed: u64, idx: u64, tier: Tier) -> Case {
        let mut case = AlgoGen {
            large_pct: 100,
            n_small: (21, 30),
            n_large: (21, 60),
            regimes: vec![WeightRegime::AllNan, WeightRegime::Dyadic, WeightRegime::SmallInt, WeightRegime::Nasty, WeightRegime::FineDyadic, WeightRegime::Tiny, WeightRegime::NearEqual, WeightRegime::MixedScale],
            kinds: AlgoGen::all_kinds(),
            shapes: None,
            lifecycle_pct: 0,
            keyings: 1,
            boundary_per_mille: 0,
            huge_one_in: 400,
            hub_one_in: 700,
        }
        .gen("C07", seed, idx);
        if idx % 100 == 99 {
            // size thresholds and per-worker state need many sources per worker: a sparse graph of > 1000 nodes
            let mut wr = Rng::new(seed, "workload.huge");
            let (directed, multi, loops) = crate::gen::kind_from(idx as usize / 100 % 8);
            let regime = *wr.pick(&[WeightRegime::AllNan, WeightRegime::SmallInt, WeightRegime::Nasty]);
            let shape = *wr.pick(&[crate::gen::Shape::Tree, crate::gen::Shape::Union, crate::gen::Shape::Path, crate::gen::Shape::SparseRandom]);
            let (specs, ops) = crate::gen::gen_graph(&mut wr, &crate::gen::GraphOpts { directed, multi, self_loops: loops, n_min: 1030, n_max: 1300, regime, shape: Some(shape), sprinkle: true });
            case.specs = specs;
            case.ops = ops;
            case.params.put("huge", J::Bool(true));
        }
        let mut rng = Rng::new(seed, "c07.envs");
        let keying = if idx % 3 == 0 { 0 } else { crate::core::rng::mix(seed, 7) | 1 };
        let k = if idx % 100 == 99 {
            2
        } else {
            match tier {
                Tier::Quick => 6,
                Tier::Thorough => 9,
            }
        };
        // environment 0 is the single-threaded reference; the others are simulated pools of 2..=16 workers
        let mut envs = vec![Env { keying, pool: 1, sched: 0 }];
        for i in 0..k {
            let p = if i == 0 { 2 } else { 2 + rng.below(15) };
            envs.push(Env { keying, pool: p, sched: rng.next_u64() });
        }
        case.envs = envs;
        case
    }
    fn run_env(&self, case: &Case, env: &Env, cx: &mut Ctx) {
        let b = match algo::build(case, cx) {
            Some(b) => b,
            None => return,
        };
        let (g, snap) = (&b.g, &b.snap);
        let n = snap.n();
        let budget = rt::budget(n, snap.edges.len());
        let weighted_ok = !snap.edges.is_empty() && snap.weighted() && algo::all_positive(snap);
        // a third of the parallel environments run inside a pool installed by the caller, nested in a pool of another size
        let installed = env.pool > 1 && env.sched % 3 == 0;
        let outer = 1 + ((env.sched >> 8) % 16) as usize;
        if installed {
            cx.count("probe.caller_installed_pool");
        }
        macro_rules! run {
            ($label:expr, $e:expr) => {{
                let r = rt::call($label, budget, || {
                    if installed {
                        pool::with_pool(outer, || pool::with_pool(env.pool, || $e))
                    } else {
                        pool::scoped(env.pool, || $e)
                    }
                });
                match r {
                    Ok(v) => v,
                    Err(p) => {
                        cx.fail("C07.panic", &format!("{} panicked", $label), format!("{} panicked under pool {}: {} [{}]", $label, env.pool, p.0, case.specs.short()));
                        return;
                    }
                }
            }};
        }
        if case.seed % 4 == 0 {
            // the same failing searches in every environment of the case (serial reference included)
            algo::poison_prelude(env, cx);
        }
        let mut modes = vec![false];
        if weighted_ok {
            modes.push(true);
        }
        let huge = n > 400;
        if huge {
            // only the centralities: all-pairs output on > 1000 nodes would dominate the run
            cx.count("probe.huge_graph");
            for weighted in modes.clone() {
                let tag = if weighted { "w" } else { "h" };
                match run!("betweenness_centrality", betweenness::betweenness_centrality(g, weighted, false)) {
                    Ok(m) => cx.emit(&format!("betweenness.{}", tag), f64map_bits(m)),
                    Err(e) => cx.emit(&format!("betweenness.{}", tag), format!("Err({:?})", e.kind)),
                }
                match run!("closeness_centrality", closeness::closeness_centrality(g, weighted, true)) {
                    Ok(m) => cx.emit(&format!("closeness.{}", tag), f64map_bits(m)),
                    Err(e) => cx.emit(&format!("closeness.{}", tag), format!("Err({:?})", e.kind)),
                }
            }
            if env.pool > 1 {
                cx.count("schedules");
            }
            cx.states.push(super::lifecycle::ops_hash(&case.ops));
            return;
        }
        for weighted in modes {
            let tag = if weighted { "w" } else { "h" };
            let orc = DistOracle::new(snap, !weighted);
            let heavy = algo::sigma_max(&orc) > 300.0;
            let wp = !heavy && (!weighted || algo::comparable_scale(snap)); // absorbed light edges act as zero-weight edges: no finite path sets
            match run!("all_pairs", dijkstra::all_pairs(g, weighted, None, None, false, wp)) {
                Ok(m) => {
                    let m = algo::sp2_conv(m);
                    cx.emit(&format!("all_pairs.{}", tag), m.iter().map(|(k, v)| format!("{:?}=>{}|", k, algo::sp_bits(v))).collect());
                }
                Err(e) => cx.emit(&format!("all_pairs.{}", tag), format!("Err({:?})", e.kind)),
            }
            let mut rng = Rng::new(case.seed, "c07.sources");
            // a second all_pairs call with a seeded option combination (the same in every environment of the case)
            {
                let t = if rng.chance(1, 2) { Some(snap.names[rng.below(n)].clone()) } else { None };
                let c = match rng.below(4) {
                    0 => None,
                    1 => Some((1 + rng.below(6)) as f64 / 2.0),
                    2 => Some((n - 1) as f64 + rng.below(3) as f64),
                    _ => Some((n as f64) * (1 + rng.below(3)) as f64 / 2.0),
                };
                let fo = rng.chance(1, 2) || !wp;
                match run!("all_pairs", dijkstra::all_pairs(g, weighted, t.clone(), c, fo, true)) {
                    Ok(m) => {
                        let m = algo::sp2_conv(m);
                        cx.emit(&format!("all_pairs_opts.{}", tag), m.iter().map(|(k, v)| format!("{:?}=>{}|", k, algo::sp_bits(v))).collect());
                    }
                    Err(e) => cx.emit(&format!("all_pairs_opts.{}", tag), format!("Err({:?})", e.kind)),
                }
            }
            let srcs: Vec<String> = (0..n.min(25)).map(|_| snap.names[rng.below(n)].clone()).collect();
            let tgt = Some(snap.names[rng.below(n)].clone());
            match run!("multi_source", dijkstra::multi_source(g, weighted, srcs.clone(), tgt.clone(), None, true, true)) {
                Ok(m) => {
                    let m = algo::sp2_conv(m);
                    cx.emit(&format!("multi_source.{}", tag), m.iter().map(|(k, v)| format!("{:?}=>{}|", k, algo::sp_bits(v))).collect());
                }
                Err(e) => cx.emit(&format!("multi_source.{}", tag), format!("Err({:?})", e.kind)),
            }
            // distances only, every option off (its own code path), right after searches that stopped at a target
            match run!("all_pairs", dijkstra::all_pairs(g, weighted, None, None, false, false)) {
                Ok(m) => {
                    let m = algo::sp2_conv(m);
                    cx.emit(&format!("all_pairs_plain.{}", tag), m.iter().map(|(k, v)| format!("{:?}=>{}|", k, algo::sp_bits(v))).collect());
                }
                Err(e) => cx.emit(&format!("all_pairs_plain.{}", tag), format!("Err({:?})", e.kind)),
            }
            if wp {
                let x = snap.names[rng.below(n)].clone();
                let v = run!("get_all_shortest_paths_involving", dijkstra::get_all_shortest_paths_involving(g, x.clone(), weighted));
                // the order of the returned vector follows hash-map iteration (keying, not schedule): compare as a sorted list
                let mut items: Vec<String> = v.iter().map(|i| format!("{:016x}:{:?}", i.distance.to_bits(), i.paths)).collect();
                items.sort();
                cx.emit(&format!("involving.{}", tag), items.join("|"));
            }
            for normalized in [false, true] {
                match run!("betweenness_centrality", betweenness::betweenness_centrality(g, weighted, normalized)) {
                    Ok(m) => cx.emit(&format!("betweenness.{}.{}", tag, normalized), f64map_bits(m)),
                    Err(e) => cx.emit(&format!("betweenness.{}.{}", tag, normalized), format!("Err({:?})", e.kind)),
                }
            }
            for wf in [false, true] {
                match run!("closeness_centrality", closeness::closeness_centrality(g, weighted, wf)) {
                    Ok(m) => cx.emit(&format!("closeness.{}.{}", tag, wf), f64map_bits(m)),
                    Err(e) => cx.emit(&format!("closeness.{}.{}", tag, wf), format!("Err({:?})", e.kind)),
                }
            }
        }
        if env.pool > 1 {
            cx.count("schedules");
            cx.count(&format!("pool.{}", env.pool));
        }
        cx.states.push(super::lifecycle::ops_hash(&case.ops));
    }
    fn cross(&self, case: &Case, results: &[EnvResult], cx: &mut Ctx) {
        if results.is_empty() {
            return;
        }
        // the reference is the environment with the smallest pool (pool 1 = the serial code path)
        let base = results.iter().min_by_key(|r| r.env.pool).unwrap();
        let mut distinct = false;
        for r in results {
            if std::ptr::eq(r, base) {
                continue;
            }
            if r.sched.jobs > 0 {
                distinct = true;
            }
            for (k, v) in &r.cx.out {
                let b = base.cx.out.iter().find(|(kk, _)| kk == k).map(|x| &x.1);
                if b != Some(v) {
                    let func = k.split('.').next().unwrap_or(k);
                    let diff = match b {
                        Some(bv) => first_difference(bv, v),
                        None => "missing in the reference run".to_string(),
                    };
                    cx.fail(
                        "C07.schedule_dependent",
                        &format!("{} differs between pool sizes / schedules", func),
                        format!("{} under pool {} (schedule seed {}) differs from pool {} on the same graph and keying: {} [{} nodes, {}]", k, r.env.pool, r.env.sched, base.env.pool, diff, case.universe().len(), case.specs.short()),
                    );
                    return;
                }
            }
            if r.cx.out.len() != base.cx.out.len() {
                cx.fail("C07.schedule_dependent", "outputs missing", format!("pool {} produced {} outputs, pool {} produced {}", r.env.pool, r.cx.out.len(), base.env.pool, base.cx.out.len()));
                return;
            }
        }
        if distinct {
            cx.nt.push(crate::core::rng::mix(super::lifecycle::ops_hash(&case.ops), results.iter().fold(0, |a, r| crate::core::rng::mix(a, r.sched.trace))));
        }
    }
    fn shrink(&self, case: &Case) -> Vec<Case> {
        // fewer parallel environments, keeping the reference
        let mut out = vec![];
        if case.envs.len() > 2 {
            for i in 1..case.envs.len() {
                let mut c = case.clone();
                c.envs = vec![case.envs[0], case.envs[i]];
                out.push(c);
            }
        }
        out
    }
    fn rule(&self) -> String {
        "graphs with 21-60 nodes of all 8 kinds (weighted / unweighted); all_pairs, multi_source (with target, first_only), get_all_shortest_paths_involving, betweenness_centrality (raw / normalized), closeness_centrality (plain / WF) evaluated once with a pool of 1 worker and under 6 (quick) / 9 (thorough) simulated pools of 2-16 workers - split tree, steals and leaf execution order drawn from the schedule seed, one third inside a caller-installed pool nested in a pool of another size - under the same hash keying; every key set, distance, path list (in order) and centrality compared by bit pattern with the single-threaded result. evaluations = cases; each case = 1 + k schedules. distinct_nontrivial = distinct (graph, set of schedule traces) in which a parallel job actually ran; one case in 400 is a dense graph (1-3 blocks, 60-300 nodes) with 2 100 - 12 500 stored edges under a pool of 2-16 workers (strategy thresholds); one case in 700 has 4 150 - 4 600 nodes with one or two hubs adjacent to more than 4 096 of them (node-count thresholds; centralities only); in a quarter of the cases searches that fail and valid searches that stop early at a target run first in every environment, and a distances-only all_pairs with every option off follows the target searches; in a third of the cases a battery of valid unjudged calls runs first on a sibling graph (same names and edges, other node order), in a fifth the graph is queried on the same object before its last one to three operations are applied (DESIGN.md 0.2)".into()
    }
    fn assumptions(&self) -> Vec<String> {
        vec![
            "the stub scheduler executes whole closures one after another: every such execution is one real rayon can produce (so any violation is genuine), but a data race inside two overlapping closures is invisible to it; graphrs has no unsafe code or interior mutability (scanned on every run, see coverage.extra), and engines (b) Miri and (c) native pools run the real rayon".into(),
            "get_all_shortest_paths_involving returns a Vec in hash-iteration order; it is compared as a multiset".into(),
        ]
    }
    fn extra_evidence(&self) -> Option<J> {
        let mut j = static_scan();
        // summaries written by the real-rayon engines during this check (checks/C07.sh runs them first)
        for (key, file) in [("engine_c_native_rayon", "target/c07-native.json"), ("engine_b_miri", "target/c07-miri.json")] {
            if let Ok(s) = std::fs::read_to_string(format!("{}/{}", rt::verif_dir(), file)) {
                if let Ok(x) = J::parse(&s) {
                    j.put(key, x);
                }
            }
        }
        Some(j)
    }
}

fn first_difference(a: &str, b: &str) -> String {
    let pos = a.bytes().zip(b.bytes()).position(|(x, y)| x != y).unwrap_or(a.len().min(b.len()));
    let lo = pos.saturating_sub(60);
    let cut = |s: &str| -> String { s.chars().skip(lo).take(160).collect() };
    format!("first difference at byte {}: reference ...{}... vs ...{}...", pos, cut(a), cut(b))
}

/// static part: source scan of /repo/src for constructs the whole-closure scheduler cannot see through
pub fn static_scan() -> J {
    let mut hits: BTreeMap<String, Vec<String>> = BTreeMap::new();
    let pats = ["unsafe", "static mut", "Cell<", "RefCell", "Atomic", "thread_local", "Mutex", "RwLock", "UnsafeCell"];
    let par = ["par_iter", "into_par_iter", "par_bridge", ".for_each(", ".reduce(", ".sum::<", ".sum()", ".fold(", "rayon::join", "rayon::scope", "rayon::spawn"];
    let mut par_hits: BTreeMap<String, Vec<String>> = BTreeMap::new();
    fn walk(dir: &std::path::Path, f: &mut dyn FnMut(&std::path::Path)) {
        if let Ok(rd) = std::fs::read_dir(dir) {
            let mut v: Vec<_> = rd.flatten().map(|e| e.path()).collect();
            v.sort();
            for p in v {
                if p.is_dir() {
                    walk(&p, f);
                } else if p.extension().map_or(false, |e| e == "rs") {
                    f(&p);
                }
            }
        }
    }
    walk(std::path::Path::new(&format!("{}/src", rt::repo_dir())), &mut |p| {
        let name = p.to_string_lossy().to_string();
        if name.contains("/main-") || name.ends_with("verif.rs") {
            return;
        }
        if let Ok(s) = std::fs::read_to_string(p) {
            let uses_rayon = s.contains("rayon");
            for (ln, line) in s.lines().enumerate() {
                let t = line.trim_start();
                if t.starts_with("//") || t.starts_with("*") || t.starts_with("/*") {
                    continue;
                }
                for pat in pats {
                    if line.contains(pat) {
                        hits.entry(pat.to_string()).or_default().push(format!("{}:{}", name, ln + 1));
                    }
                }
                if uses_rayon {
                    for pat in par {
                        if line.contains(pat) {
                            par_hits.entry(pat.to_string()).or_default().push(format!("{}:{}", name, ln + 1));
                        }
                    }
                }
            }
        }
    });
    let tojson = |m: &BTreeMap<String, Vec<String>>| J::Obj(m.iter().map(|(k, v)| (k.clone(), J::Arr(v.iter().take(12).map(|s| J::s(s)).collect()))).collect());
    J::obj()
        .set("interior_mutability_or_unsafe_hits", tojson(&hits))
        .set("parallel_constructs_in_files_using_rayon", tojson(&par_hits))
        .set("note", J::s(if hits.is_empty() { "no unsafe / static mut / Cell / Atomic / thread_local / lock in src/: shared &Graph is race-free by construction and whole-closure scheduling loses nothing" } else { "interior mutability or unsafe code found: a clean stub result is weaker; rely on the Miri engine" }))
}
