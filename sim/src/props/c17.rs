//! C17 — a seed makes randomised functions reproducible.
//! Searched: for a fixed (graph, arguments, Some(seed)) the *environment*: hash keyings, repeated calls in one
//! thread (the keys advance with every map), simulated pool sizes. Different worker processes are covered by the
//! determinism proof (run fingerprints include every output and are compared across processes).
use super::algo::{self, AlgoGen};
use super::c13::{args_of, canon_levels, louvain_budget, Level};
use super::{Prop, Tier};
use crate::core::case::*;
use crate::core::json::J;
use crate::core::rng::Rng;
use crate::core::rt;
use crate::gen::{self, Shape, WeightRegime};
use crate::oracle::close;
use crate::pool;
use crate::runner::{Ctx, EnvResult};
use graphrs::algorithms::centrality::{betweenness, closeness, eigenvector};
use graphrs::algorithms::community::louvain;
use graphrs::algorithms::shortest_path::dijkstra;
use graphrs::algorithms::{cluster, components};
use graphrs::generators::random::fast_gnp_random_graph;
use std::collections::{BTreeMap, BTreeSet};

pub struct C17Prop;
pub static C17: C17Prop = C17Prop;

fn floats(m: std::collections::HashMap<String, f64>) -> String {
    let b: BTreeMap<String, f64> = m.into_iter().collect();
    b.iter().map(|(k, v)| format!("{:?}={:016x}", k, v.to_bits())).collect::<Vec<_>>().join(",")
}
fn sets(v: Vec<std::collections::HashSet<String>>) -> String {
    let b: BTreeSet<BTreeSet<String>> = v.into_iter().map(|s| s.into_iter().collect()).collect();
    format!("{:?}", b)
}

/// compare two float renderings produced by `floats` at 1e-9
fn floats_close(a: &str, b: &str) -> bool {
    let pa: Vec<&str> = a.split(',').collect();
    let pb: Vec<&str> = b.split(',').collect();
    if pa.len() != pb.len() {
        return false;
    }
    for (x, y) in pa.iter().zip(pb.iter()) {
        if x == y {
            continue;
        }
        let (kx, vx) = match x.rsplit_once('=') {
            Some(p) => p,
            None => return false,
        };
        let (ky, vy) = match y.rsplit_once('=') {
            Some(p) => p,
            None => return false,
        };
        let fx = u64::from_str_radix(vx, 16).map(f64::from_bits);
        let fy = u64::from_str_radix(vy, 16).map(f64::from_bits);
        match (fx, fy) {
            (Ok(fx), Ok(fy)) if kx == ky && close(fx, fy) => {}
            _ => return false,
        }
    }
    true
}

impl Prop for C17Prop {
    fn id(&self) -> &'static str {
        "C17"
    }
    fn runs(&self, tier: Tier) -> u64 {
        match tier {
            Tier::Quick => 4_000,
            Tier::Thorough => 60_000,
        }
    }
    fn gen(&self, seed: u64, idx: u64, tier: Tier) -> Case {
        // the tie-rich graphs the property names: paths, cycles, regular graphs, complete bipartite, disjoint equal components
        let mut case = AlgoGen {
            large_pct: 30,
            n_small: (2, 12),
            n_large: (21, 36),
            regimes: vec![WeightRegime::AllNan, WeightRegime::AllNan, WeightRegime::SmallInt, WeightRegime::Dyadic, WeightRegime::Nasty, WeightRegime::FineDyadic, WeightRegime::Overflowing],
            kinds: AlgoGen::all_kinds(),
            shapes: Some(vec![Shape::Path, Shape::Cycle, Shape::Cycle, Shape::Union, Shape::Union, Shape::Bipartite, Shape::Grid, Shape::Cliques, Shape::Star, Shape::Gnp, Shape::GradedHub, Shape::Circulant]),
            lifecycle_pct: 15,
            keyings: 1,
            boundary_per_mille: 0,
            huge_one_in: 600,
            hub_one_in: 0,
        }
        .gen("C17", seed, idx);
        {
            let mut sr = Rng::new(seed, "config.special");
            if sr.chance(1, 25) {
                // a hub joined to identical parts by spokes whose weights differ in the 12th-13th digit: candidate
                // communities that are nearly, but not exactly, tied (weighted run forced below)
                let (d, m, l) = gen::kind_from(idx as usize % 8);
                let mut wr = Rng::new(seed, "workload.graded");
                let (specs, ops) = gen::gen_graph(&mut wr, &gen::GraphOpts { directed: d, multi: m, self_loops: l, n_min: 14, n_max: 30, regime: WeightRegime::Dyadic, shape: Some(Shape::GradedHub), sprinkle: false });
                case.specs = specs;
                case.ops = ops;
                case.params.put("source", J::s("hub with graded spokes"));
            } else if sr.chance(1, 40) {
                // regular graphs with more than a thousand edges (every node order gives the same degree profile)
                let (d, _, l) = gen::kind_from(idx as usize % 8);
                let mut wr = Rng::new(seed, "workload.regular");
                let regime = *wr.pick(&[WeightRegime::AllNan, WeightRegime::AllNan, WeightRegime::SmallInt]);
                let (specs, ops) = gen::gen_graph(&mut wr, &gen::GraphOpts { directed: d, multi: false, self_loops: l, n_min: 128, n_max: 220, regime, shape: Some(Shape::Circulant), sprinkle: false });
                case.specs = specs;
                case.ops = ops;
                case.params.put("source", J::s("regular graph with more than 1000 edges"));
            }
        }
        let mut rng = Rng::new(seed, "c17.args");
        // boundary seeds matter: 0 and u64::MAX are as much "a seed supplied" as any other
        let bseed = |rng: &mut Rng, m: u64| -> u64 {
            match rng.below(8) {
                0 => 0,
                1 => u64::MAX,
                2 => 1,
                _ => rng.next_u64() % m,
            }
        };
        case.params.put("louvain_seed", J::U(bseed(&mut rng, 1000)));
        case.params.put("resolution", J::F(*rng.pick(&[1.0, 1.0, 0.5, 2.0])));
        case.params.put("threshold", J::F(*rng.pick(&[1e-7, 1e-7, 0.0, 1e-3])));
        let graded = case.params.get("source").and_then(|j| j.str()) == Some("hub with graded spokes");
        case.params.put("weighted", J::Bool(rng.chance(1, 3) || graded));
        case.params.put("gnp_n", J::U(rng.below(if idx % 10 == 0 { 301 } else { 40 }) as u64));
        case.params.put("gnp_p", J::F(*rng.pick(&[0.05, 0.1, 0.3, 0.5, 0.9, 0.01])));
        case.params.put("gnp_seed", J::U(bseed(&mut rng, 100000)));
        let k = match tier {
            Tier::Quick => 8,
            Tier::Thorough => 24,
        };
        let ks = gen::keyings(seed, k);
        case.envs = ks.into_iter().enumerate().map(|(i, k)| Env { keying: k, pool: if i == 0 { 1 } else { 1 + rng.below(16) }, sched: rng.next_u64() }).collect();
        case
    }
    fn run_env(&self, case: &Case, env: &Env, cx: &mut Ctx) {
        let b = match algo::build(case, cx) {
            Some(b) => b,
            None => return,
        };
        let (g, snap) = (&b.g, &b.snap);
        let n = snap.n();
        let budget = rt::budget(n, snap.edges.len());
        // ---- the randomised functions, seed supplied
        if !snap.edges.is_empty() {
            let a = args_of(case, snap);
            let lb = louvain_budget(n, snap.edges.len());
            // with unit or dyadic weights every sum inside Louvain is exact whatever the summation order, so a
            // difference can only come from an order-dependent decision; with other weights it can also come from
            // rounding of sums accumulated in hash order (a recorded finding, see known_findings.json)
            let overflowing = a.weighted && !(2.0 * snap.edges.iter().map(|e| e.2.abs()).sum::<f64>()).powi(2).is_finite();
            let wclass = if !a.weighted || crate::oracle::dist::weights_exact(snap) {
                "exactly summable weights"
            } else if overflowing {
                // sums or products of the weights leave the range of f64: not the rounding of finite sums
                "overflowing weights"
            } else {
                "inexactly summable weights"
            };
            if env.sched % 2 == 1 {
                // what ran on this thread before: the same calls on the same graph declared in another node order,
                // and a search that stops early at a target. Only some environments do this, so a result that
                // depends on it shows up as a difference between environments.
                if let Some(sib) = algo::sibling(case) {
                    let _ = rt::call("louvain_partitions(earlier graph)", lb, || louvain::louvain_partitions(&sib, a.weighted, Some(a.resolution), Some(a.threshold), Some(a.seed)).is_ok());
                    let names = &snap.names;
                    if names.len() >= 2 {
                        let (s0, t0) = (names[0].clone(), names[names.len() / 2].clone());
                        let _ = rt::call("single_source(earlier graph, target)", budget, || graphrs::algorithms::shortest_path::dijkstra::single_source(&sib, false, s0.clone(), Some(t0.clone()), None, true, true).is_ok());
                    }
                    cx.count("probe.earlier_calls_on_a_sibling_graph");
                }
            }
            cx.emit("meta:louvain_weights", wclass.to_string());
            let mut first: Option<Vec<Level>> = None;
            for rep in 0..2 {
                match rt::call("louvain_partitions", lb, || louvain::louvain_partitions(g, a.weighted, Some(a.resolution), Some(a.threshold), Some(a.seed))) {
                    Ok(Ok(l)) => {
                        let c = canon_levels(&l);
                        match &first {
                            None => {
                                cx.emit("louvain_partitions", format!("{:?}", c));
                                first = Some(c);
                            }
                            Some(f) => {
                                if f != &c {
                                    cx.fail("C17.repeat_call", &format!("louvain_partitions differs between two calls in one thread [{}]", wclass), format!("louvain_partitions(seed={}) returned {:?} and then {:?} in the same thread (call {}; each call sees freshly keyed hash tables) [{}]", a.seed, f, c, rep, case.specs.short()));
                                    return;
                                }
                            }
                        }
                    }
                    Ok(Err(e)) => cx.emit("louvain_partitions", format!("Err({:?})", e.kind)),
                    Err(p) => cx.emit("louvain_partitions", format!("panic({})", p.0)),
                }
            }
            match rt::call("louvain_communities", lb, || louvain::louvain_communities(g, a.weighted, Some(a.resolution), Some(a.threshold), Some(a.seed))) {
                Ok(Ok(c)) => cx.emit("louvain_communities", sets(c)),
                Ok(Err(e)) => cx.emit("louvain_communities", format!("Err({:?})", e.kind)),
                Err(p) => cx.emit("louvain_communities", format!("panic({})", p.0)),
            }
            cx.count("louvain_calls");
        }
        let gn = case.p_u64("gnp_n").unwrap_or(10) as i32;
        let gp = case.p_f64("gnp_p").unwrap_or(0.2);
        let gs = case.p_u64("gnp_seed").unwrap_or(1);
        for directed in [true, false] {
            let mut prev: Option<String> = None;
            for _rep in 0..2 {
                let r = rt::call("fast_gnp_random_graph", rt::budget(gn as usize, (gn * gn) as usize / 2), || fast_gnp_random_graph(gn, gp, directed, Some(gs)));
                let s = match r {
                    Ok(Ok(gg)) => {
                        let nodes: Vec<i32> = gg.get_all_node_names().into_iter().copied().collect();
                        let mut edges: Vec<(i32, i32)> = gg.get_all_edges().iter().map(|e| (e.u, e.v)).collect();
                        edges.sort();
                        format!("{:?}|{:?}", nodes, edges)
                    }
                    Ok(Err(e)) => format!("Err({:?})", e.kind),
                    Err(p) => format!("panic({})", p.0),
                };
                if let Some(p) = &prev {
                    if p != &s {
                        cx.fail("C17.repeat_call", "fast_gnp_random_graph differs between two calls", format!("fast_gnp_random_graph({}, {}, {}, Some({})) differs between two calls in one thread", gn, gp, directed, gs));
                        return;
                    }
                }
                prev = Some(s);
            }
            cx.emit(&format!("fast_gnp.{}", directed), prev.unwrap());
        }
        // ---- the non-randomised algorithms: same answer for the same graph (floats up to rounding)
        macro_rules! f {
            ($key:expr, $label:expr, $e:expr) => {
                match rt::call($label, budget, || pool::scoped(env.pool, || $e)) {
                    Ok(Ok(m)) => cx.emit(&format!("f:{}", $key), floats(m)),
                    Ok(Err(e)) => cx.emit(&format!("f:{}", $key), format!("Err({:?})", e.kind)),
                    Err(p) => cx.emit(&format!("f:{}", $key), format!("panic({})", p.0)),
                }
            };
        }
        // weights whose sums overflow are given to Louvain only: path lengths that reach +inf absorb every further
        // edge, i.e. the graph then has zero-length cycles, for which no property promises anything (App. E 14/15)
        let sums_overflow = !(2.0 * snap.edges.iter().map(|e| e.2.abs()).sum::<f64>()).powi(2).is_finite();
        let w = !snap.edges.is_empty() && snap.weighted() && algo::all_positive(snap) && !sums_overflow;
        f!("betweenness", "betweenness_centrality", betweenness::betweenness_centrality(g, w, true));
        f!("closeness", "closeness_centrality", closeness::closeness_centrality(g, w, true));
        if !snap.multi {
            f!("clustering", "clustering", cluster::clustering(g, w, None));
            f!("eigenvector", "eigenvector_centrality", eigenvector::eigenvector_centrality(g, w, Some(200), Some(1e-8)));
        }
        match rt::call("all_pairs", budget, || pool::scoped(env.pool, || dijkstra::all_pairs(g, w, None, None, true, false))) {
            Ok(Ok(m)) => {
                let m = algo::sp2_conv(m);
                let flat: std::collections::HashMap<String, f64> = m.iter().flat_map(|(s, mm)| mm.iter().map(move |(t, v)| (format!("{}->{}", s, t), v.0))).collect();
                cx.emit("f:all_pairs", floats(flat));
            }
            Ok(Err(e)) => cx.emit("f:all_pairs", format!("Err({:?})", e.kind)),
            Err(p) => cx.emit("f:all_pairs", format!("panic({})", p.0)),
        }
        let comp = if snap.directed {
            rt::call("strongly_connected_components", budget, || components::strongly_connected_components(g))
        } else {
            rt::call("connected_components", budget, || components::connected_components(g))
        };
        match comp {
            Ok(Ok(c)) => cx.emit("components", sets(c)),
            Ok(Err(e)) => cx.emit("components", format!("Err({:?})", e.kind)),
            Err(p) => cx.emit("components", format!("panic({})", p.0)),
        }
        let deg: BTreeMap<String, usize> = rt::call("get_degree_for_all_nodes", budget, || g.get_degree_for_all_nodes()).map(|m| m.into_iter().collect()).unwrap_or_default();
        cx.emit("degrees", format!("{:?}", deg));
        if n > 0 {
            let x = snap.names[0].clone();
            if let Ok(b) = rt::call("breadth_first_search", budget, || g.breadth_first_search(&x)) {
                // all C10 promises about the order: the start node first
                let set: BTreeSet<&String> = b.iter().collect();
                cx.emit("bfs", format!("{:?}|{:?}", b.first(), set));
            }
        }
        cx.count("environments");
        if env.keying == 0 {
            cx.states.push(super::lifecycle::ops_hash(&case.ops));
        }
    }
    fn cross(&self, case: &Case, results: &[EnvResult], cx: &mut Ctx) {
        if results.len() < 2 {
            return;
        }
        let base = &results[0];
        let mut distinct_louvain: BTreeSet<&String> = BTreeSet::new();
        for r in results {
            if let Some((_, v)) = r.cx.out.iter().find(|(k, _)| k == "louvain_partitions") {
                distinct_louvain.insert(v);
            }
        }
        for r in &results[1..] {
            for (k, v) in &r.cx.out {
                let b = base.cx.out.iter().find(|(kk, _)| kk == k).map(|x| &x.1);
                let same = match b {
                    Some(bv) if bv == v => true,
                    Some(bv) if k.starts_with("f:") => floats_close(bv, v),
                    _ => false,
                };
                if !same {
                    let func = k.trim_start_matches("f:");
                    let sig = if k.starts_with("louvain") {
                        let wclass = r.cx.out.iter().find(|(kk, _)| kk == "meta:louvain_weights").map(|x| x.1.as_str()).unwrap_or("?");
                        format!("{} depends on the environment (hash keying / pool) [{}]", func, wclass)
                    } else {
                        format!("{} differs between environments", func)
                    };
                    let extra = if k == "louvain_partitions" { format!(" ({} distinct answers over {} environments)", distinct_louvain.len(), results.len()) } else { String::new() };
                    cx.fail(
                        "C17.environment_dependent",
                        &sig,
                        format!("{} with the same arguments (seed supplied) differs between keying={} pool={} and keying={} pool={}{}: {} vs {} [{}]", func, base.env.keying, base.env.pool, r.env.keying, r.env.pool, extra, b.map(|s| s.chars().take(300).collect::<String>()).unwrap_or_default(), v.chars().take(300).collect::<String>(), case.specs.short()),
                    );
                    return;
                }
            }
        }
        cx.nt.push(crate::core::rng::mix(super::lifecycle::ops_hash(&case.ops), crate::core::rng::hash_str(&case.params.to_string())));
    }
    fn shrink(&self, case: &Case) -> Vec<Case> {
        let mut out = vec![];
        if case.envs.len() > 2 {
            for i in 1..case.envs.len() {
                let mut c = case.clone();
                c.envs = vec![case.envs[0], case.envs[i]];
                out.push(c);
            }
        }
        out
    }
    fn rule(&self) -> String {
        "tie-rich graphs (paths, cycles, unions of equal components, complete-ish bipartite, grids, cliques, stars, G(n,p); all 8 kinds; n <= 36) and fast_gnp_random_graph(n <= 300, p, directed/undirected, Some(seed)); the same call is made under 8 (quick) / 24 (thorough) environments = hash keyings x simulated pool sizes 1-16, and twice in one thread; Louvain results compared as lists of sets of sets, generator results as (node list, sorted edge list), non-randomised algorithms (betweenness, closeness, clustering, eigenvector, all_pairs distances, components, degrees, BFS as first element + set): discrete results exactly, floats at 1e-9. distinct_nontrivial = distinct (graph, arguments) compared across >= 2 environments; one case in 600 is a dense graph (1-3 blocks, 60-300 nodes) with 2 100 - 12 500 stored edges under a pool of 2-16 workers (strategy thresholds); weights also 1 + k 2^-j; shape 'hub joined to 3-5 identical parts by spokes graded in steps of 2^-41..2^-35 or one ulp' (candidates nearly but not exactly tied); one case in 40 is a circulant (regular) graph of 128-220 nodes with up to 1 980 edges; weights also with overflowing sums (Louvain only); in half of the environments the same Louvain call and a search that stops at a target run first on the same graph declared in another node order, so a result that depends on what ran on the thread before differs between environments; in a third of the cases a battery of valid unjudged calls runs first on a sibling graph (same names and edges, other node order), in a fifth the graph is queried on the same object before its last one to three operations are applied (DESIGN.md 0.2)".into()
    }
    fn assumptions(&self) -> Vec<String> {
        vec!["fresh processes are covered by the determinism proof (tools/determinism.sh): run fingerprints, which include every output, are compared across separate processes and worker counts".into(), "seed = None paths are out of scope (OS entropy through a raw syscall the simulator does not own)".into()]
    }
}
