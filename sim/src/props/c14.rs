//! C14 — GraphML write-then-read reproduces the graph exactly.
use super::algo;
use super::{Prop, Tier};
use crate::core::case::*;
use crate::core::json::J;
use crate::core::rng::Rng;
use crate::core::rt;
use crate::gen;
use crate::runner::Ctx;
use graphrs::readwrite::graphml;
use graphrs::Graph;

pub struct C14Prop;
pub static C14: C14Prop = C14Prop;

const FRAGMENTS: &[&str] = &[
    "<", ">", "&", "\"", "'", " ", "  ", "]]>", "&amp;", "&lt;", "&#10;", "&#x41;", "&bogus;", "<!--", "-->", "<![CDATA[", "?>", "<?xml", "=", "/", "\\", "e\u{301}", "\u{1F600}", "\u{10FFFF}", "日本語", "עברית", "ß", "İ", "\u{a0}", "\u{2028}", "\u{feff}", "\u{200d}", "%20", "\u{fffd}", "a", "B", "0", "n1", "node", "id=\"x\"", "</node>", "\u{ffef}",
];

fn tricky_name(rng: &mut Rng) -> String {
    match rng.below(12) {
        0 => String::new(),
        1 => " ".to_string(),
        2 => format!(" {} ", rng.pick(FRAGMENTS)),
        3 => "x".repeat(rng.range(100, 400)),
        _ => {
            let k = rng.range(1, 4);
            (0..k).map(|_| *rng.pick(FRAGMENTS)).collect::<Vec<_>>().join("")
        }
    }
}

const WEIGHTS: &[u64] = &[
    0x0000000000000000, // +0
    0x8000000000000000, // -0
    0x0000000000000001, // smallest subnormal
    0x800fffffffffffff, // largest negative subnormal
    0x0010000000000000, // MIN_POSITIVE
    0x7fefffffffffffff, // MAX
    0xffefffffffffffff, // -MAX
    0x7ff0000000000000, // +inf
    0xfff0000000000000, // -inf
    0x3fd3333333333334, // 0.30000000000000004
    0x3fb999999999999a, // 0.1
    0x4340000000000001, // 2^53 + 2
    0x7fe1ccf385ebc8a0, // 1e308
    0x3ff0000000000001, // 1 + ulp
    0x400921fb54442d18, // pi
    0xc08f400000000000, // -1000
    0x3e7ad7f29abcaf48, // 1e-7
    0x444b1ae4d6e2ef50, // 1e21
    0x3eb0c6f7a0b5ed8d, // 1e-6
];

fn weight(rng: &mut Rng, regime: usize) -> u64 {
    match regime {
        0 => NAN_BITS,
        1 => {
            if rng.chance(1, 4) {
                NAN_BITS
            } else {
                *rng.pick(WEIGHTS)
            }
        }
        2 => *rng.pick(WEIGHTS),
        _ => loop {
            let b = rng.next_u64();
            if !f64::from_bits(b).is_nan() {
                return b;
            }
        },
    }
}

impl Prop for C14Prop {
    fn id(&self) -> &'static str {
        "C14"
    }
    fn runs(&self, tier: Tier) -> u64 {
        match tier {
            Tier::Quick => 40_000,
            Tier::Thorough => 1_000_000,
        }
    }
    fn gen(&self, seed: u64, idx: u64, tier: Tier) -> Case {
        let mut rng = Rng::new(seed, "workload");
        let (directed, multi, self_loops) = gen::kind_from(idx as usize % 8);
        let specs = Specs { directed, multi, self_loops, dedupe: *rng.pick(&[Dedupe::Error, Dedupe::KeepFirst, Dedupe::KeepLast]), missing: *rng.pick(&[Missing::Create, Missing::Error]), slf: *rng.pick(&[Slf::Error, Slf::Drop]) };
        let mut case = Case::new("C14", seed, specs);
        {
            let mut hr = Rng::new(seed, "config.huge");
            if hr.chance(1, 2000) {
                // thousands of elements: a document of several hundred KiB
                let regime = *hr.pick(&[gen::WeightRegime::AllNan, gen::WeightRegime::Nasty, gen::WeightRegime::Mixed, gen::WeightRegime::Extreme, gen::WeightRegime::NearEqual]);
                let mut wr = Rng::new(seed, "workload.huge");
                let (specs, ops) = gen::gen_dense_graph(&mut wr, directed, multi, self_loops, regime);
                let mut case = Case::new("C14", seed, specs);
                case.ops = ops;
                case.envs = gen::envs(seed, 2);
                case.params.put("weights", J::s(&format!("{:?}", regime)));
                case.params.put("source", J::s("dense graph with thousands of edges"));
                return case;
            }
        }
        let n = rng.range(0, 7);
        let mut names: Vec<String> = vec![];
        if rng.chance(1, 400) {
            // one very long non-ASCII name behind a short ASCII prefix: any fixed-size read block of the file
            // variant then ends inside a multi-byte character
            let pad = "p".repeat(rng.below(4));
            let ch = *rng.pick(&["\u{65e5}", "\u{e9}", "\u{1F600}"]);
            names.push(format!("{}{}", pad, ch.repeat(rng.range(23_000, 45_000))));
        }
        while names.len() < n {
            let s = if rng.chance(1, 5) { format!("n{}", names.len()) } else { tricky_name(&mut rng) };
            if !names.contains(&s) {
                names.push(s);
            }
        }
        let regime = rng.below(4);
        let mut ops = vec![Op::AddNodes(names.iter().map(|s| (s.clone(), None)).collect())];
        if n > 0 {
            for _ in 0..rng.range(0, 10) {
                let u = rng.pick(&names).clone();
                let v = if rng.chance(1, 6) { u.clone() } else { rng.pick(&names).clone() };
                ops.push(Op::AddEdge(E { u, v, w: weight(&mut rng, regime), attr: None }));
            }
        }
        case.ops = ops;
        let k = match tier {
            Tier::Quick => 3,
            Tier::Thorough => 5,
        };
        case.envs = gen::envs(seed, k);
        case.params.put("weights", J::s(["all unweighted", "mixed", "special values", "random bit patterns"][regime]));
        case
    }
    fn run_env(&self, case: &Case, env: &Env, cx: &mut Ctx) {
        let b = match algo::build(case, cx) {
            Some(b) => b,
            None => return,
        };
        let (g, snap) = (&b.g, &b.snap);
        let budget = rt::budget(snap.n(), snap.edges.len());
        let doc = match rt::call("write_graphml_string", budget, || graphml::write_graphml_string(g)) {
            Ok(Ok(s)) => s,
            Ok(Err(e)) => {
                cx.fail("C14.write_failed", "write_graphml_string failed", format!("write_graphml_string failed: {}", e));
                return;
            }
            Err(p) => {
                cx.fail("C14.panic", "write_graphml_string panicked", format!("write_graphml_string panicked: {}", p.0));
                return;
            }
        };
        cx.ev(crate::core::rng::hash_str(&doc));
        let specs = case.specs;
        let back: Graph<String, ()> = match rt::call("read_graphml_string", budget, || graphml::read_graphml_string(&doc, specs.to_real())) {
            Ok(Ok(g2)) => g2,
            Ok(Err(e)) => {
                cx.fail("C14.read_failed", &format!("read_graphml_string rejects the writer's output: {:?}", e.kind), format!("read_graphml_string failed on the writer's own output ({:?}: {}); document: {}", e.kind, e.message, doc));
                return;
            }
            Err(p) => {
                cx.fail("C14.panic", "read_graphml_string panicked on the writer's output", format!("read_graphml_string panicked on the writer's own output: {}; document: {}", p.0, doc));
                return;
            }
        };
        let cmp = |back: &Graph<String, ()>, how: &str, cx: &mut Ctx| -> bool {
            let names2: Vec<String> = back.get_all_node_names().into_iter().cloned().collect();
            if names2 != snap.names {
                cx.fail("C14.nodes", &format!("node names / order ({})", how), format!("node names after the round trip {:?} vs original {:?}; document: {}", names2, snap.names, doc));
                return false;
            }
            if back.specs.directed != snap.directed {
                cx.fail("C14.directedness", how, format!("directedness after the round trip {} vs {}", back.specs.directed, snap.directed));
                return false;
            }
            let canon = |directed: bool, it: Vec<(String, String, u64)>| {
                let mut v: Vec<(String, String, u64)> = it.into_iter().map(|(u, v, w)| if !directed && u > v { (v, u, w) } else { (u, v, w) }).collect();
                v.sort();
                v
            };
            let a = canon(snap.directed, g.get_all_edges().iter().map(|e| (e.u.clone(), e.v.clone(), wbits(e.weight))).collect());
            let b2 = canon(snap.directed, back.get_all_edges().iter().map(|e| (e.u.clone(), e.v.clone(), wbits(e.weight))).collect());
            if a != b2 {
                let diff: Vec<_> = a.iter().zip(b2.iter()).filter(|(x, y)| x != y).take(3).map(|(x, y)| format!("{:?}-{:?} {:016x} ({:?}) became {:?}-{:?} {:016x} ({:?})", x.0, x.1, x.2, f64::from_bits(x.2), y.0, y.1, y.2, f64::from_bits(y.2))).collect();
                let wsig = if a.len() == b2.len() && a.iter().zip(b2.iter()).all(|(x, y)| x.0 == y.0 && x.1 == y.1) { "weights differ" } else { "edge set differs" };
                cx.fail("C14.edges", &format!("{} ({})", wsig, how), format!("edge multiset after the round trip differs ({} vs {} edges): {:?}; document: {}", a.len(), b2.len(), diff, doc));
                return false;
            }
            if snap.multi {
                // parallel edges of a pair keep their relative order
                for u in &snap.names {
                    for v in &snap.names {
                        let x: Vec<u64> = g.get_edges(u.clone(), v.clone()).map(|l| l.iter().map(|e| wbits(e.weight)).collect()).unwrap_or_default();
                        let y: Vec<u64> = back.get_edges(u.clone(), v.clone()).map(|l| l.iter().map(|e| wbits(e.weight)).collect()).unwrap_or_default();
                        if x != y {
                            cx.fail("C14.parallel_order", how, format!("parallel edges {:?}-{:?}: weights in order {:?} became {:?}", u, v, x, y));
                            return false;
                        }
                        if x.len() >= 2 {
                            cx.count("probe.parallel_edges_round_tripped");
                        }
                    }
                }
            }
            true
        };
        if !cmp(&back, "string", cx) {
            return;
        }
        cx.count("string_round_trips");
        // the file variant writes the same document and reads back the same graph (one keying per case is enough)
        if env.keying == 0 {
            let dir = format!("{}/target/scratch", rt::verif_dir());
            let _ = std::fs::create_dir_all(&dir);
            let path = format!("{}/c14-{}-{:x}.graphml", dir, std::process::id(), case.seed);
            // half of the cases write over an existing, longer document at the same path (a second write in a
            // history of writes), the other half to a fresh path
            if case.seed % 2 == 0 {
                let filler = format!("<graphml>{}</graphml>", "<node id=\"old\"/>".repeat(40 + doc.len() / 8));
                let _ = std::fs::write(&path, filler);
                cx.count("probe.file_overwrites_a_longer_file");
            }
            let r = rt::call("write_graphml_file", budget, || graphml::write_graphml_file(g, &path));
            match r {
                Ok(Ok(())) => {
                    let bytes = std::fs::read_to_string(&path).unwrap_or_default();
                    if bytes != doc {
                        cx.fail("C14.file_vs_string", "file and string documents differ", format!("write_graphml_file wrote {:?} but write_graphml_string returned {:?}", bytes, doc));
                    } else {
                        match rt::call("read_graphml_file", budget, || graphml::read_graphml_file(&path, specs.to_real())) {
                            Ok(Ok(g3)) => {
                                cmp(&g3, "file", cx);
                                cx.count("file_round_trips");
                            }
                            Ok(Err(e)) => cx.fail("C14.read_failed", "read_graphml_file failed", format!("read_graphml_file failed: {:?} {}", e.kind, e.message)),
                            Err(p) => cx.fail("C14.panic", "read_graphml_file panicked", format!("read_graphml_file panicked: {}", p.0)),
                        }
                    }
                }
                Ok(Err(e)) => cx.fail("C14.write_failed", "write_graphml_file failed", format!("write_graphml_file failed: {}", e)),
                Err(p) => cx.fail("C14.panic", "write_graphml_file panicked", format!("write_graphml_file panicked: {}", p.0)),
            }
            let _ = std::fs::remove_file(&path);
            cx.states.push(super::lifecycle::ops_hash(&case.ops));
            let special = snap.names.iter().any(|n| n.is_empty() || n.chars().any(|c| "<>&\"' ".contains(c) || !c.is_ascii())) || snap.edges.iter().any(|e| !e.2.is_nan());
            if special && !snap.edges.is_empty() {
                cx.nt.push(super::lifecycle::ops_hash(&case.ops));
            }
        }
    }
    fn rule(&self) -> String {
        "graphs of all 8 kinds (<= 7 nodes, <= 10 edges, self-loops, parallel edges) with names from a Unicode generator (XML specials, entity-like text, ]]>, spaces incl. leading/trailing/double, combining marks, astral plane, CJK, RTL, NBSP, U+2028, BOM, empty string, 400-char names; no control characters) and weights from a bit-pattern generator (+-0, subnormals, MIN_POSITIVE, MAX, +-inf, 17-digit values, integers above 2^53, random non-NaN bit patterns) or unweighted / mixed; write_graphml_string -> read_graphml_string with the same specs under 3 (quick) / 5 (thorough) hash keyings (the writer emits edges in hash order): same names in order, directedness, edge multiset with bit-identical weights, relative order of parallel edges; write_graphml_file + read_graphml_file (real files in /verif/target/scratch) give the same document and graph. distinct_nontrivial = distinct graphs with edges and a special name or a weighted edge; one case in 2000 is a dense graph (1-3 blocks, 60-300 nodes) with 2 100 - 12 500 stored edges under a pool of 2-16 workers (strategy thresholds)".into()
    }
    fn assumptions(&self) -> Vec<String> {
        vec!["the file system is real and fault-free (no property asks for I/O-error behaviour)".into(), "control characters and the XML-forbidden code points U+FFFE/U+FFFF are excluded, as the property says".into()]
    }
}
