//! The lifecycle engine: a history of operations applied in lockstep to the real container and to the
//! reference model, with the armed property's invariants evaluated after every step.
use crate::core::case::*;
use crate::core::model::{Expect, Model, Out, ME};
use crate::core::real::{self, Obs, G};
use crate::core::rt::Panicked;
use crate::runner::Ctx;

#[derive(Clone, Copy, Default)]
pub struct Arms {
    pub c01: bool,
    pub c02: bool,
    pub c03: bool,
    pub c09: bool,
    pub c15: bool,
}

/// compare the observable state with the model; Err(description) on mismatch
pub fn state_mismatch(obs: &Obs, m: &Model) -> Option<String> {
    if obs.directed != m.specs.directed {
        return Some(format!("directedness: real {} model {}", obs.directed, m.specs.directed));
    }
    if obs.nodes != m.nodes {
        return Some(format!("node list (name, attribute) in order: real {:?} vs model {:?}", obs.nodes, m.nodes));
    }
    let a = obs.canon(m.attrs_unspecified);
    let b = m.canon_edges();
    if a.len() != b.len() {
        return Some(format!("edge multiset size: real {} vs model {}: real {:?} vs model {:?}", a.len(), b.len(), show_edges(&a), show_edges(&b)));
    }
    if m.approx_weights {
        // weights are floating sums: compare endpoints/attrs exactly, weights approximately (sorted by bits,
        // so re-sort ignoring weights)
        let key = |e: &(String, String, u64, Option<u32>)| (e.0.clone(), e.1.clone(), e.3);
        let mut a2 = a.clone();
        let mut b2 = b.clone();
        a2.sort_by(|x, y| key(x).cmp(&key(y)).then(f64::from_bits(x.2).total_cmp(&f64::from_bits(y.2))));
        b2.sort_by(|x, y| key(x).cmp(&key(y)).then(f64::from_bits(x.2).total_cmp(&f64::from_bits(y.2))));
        for (x, y) in a2.iter().zip(b2.iter()) {
            if key(x) != key(y) || !crate::oracle::close_rel(f64::from_bits(x.2), f64::from_bits(y.2)) {
                return Some(format!("edge multiset (summed weights compared at 1e-9): real {:?} vs model {:?}", show_edges(&a), show_edges(&b)));
            }
        }
        return None;
    }
    if a != b {
        return Some(format!("edge multiset: real {:?} vs model {:?}", show_edges(&a), show_edges(&b)));
    }
    None
}

pub fn show_edges(v: &[(String, String, u64, Option<u32>)]) -> Vec<String> {
    v.iter().map(|e| format!("{}-{} w={} a={:?}", e.0, e.1, f64::from_bits(e.2), e.3)).collect()
}

/// make the model's weights bit-identical to the real ones after an approximate match
fn adopt_weights(obs: &Obs, m: &mut Model) {
    let real = obs.canon(true);
    let mut used = vec![false; real.len()];
    let directed = m.specs.directed;
    for e in m.edges.iter_mut() {
        let (u, v) = if !directed && e.u > e.v { (e.v.clone(), e.u.clone()) } else { (e.u.clone(), e.v.clone()) };
        let mut best: Option<usize> = None;
        for (i, r) in real.iter().enumerate() {
            if used[i] || r.0 != u || r.1 != v {
                continue;
            }
            let d = (f64::from_bits(r.2) - f64::from_bits(e.w)).abs();
            if best.map_or(true, |b| d < (f64::from_bits(real[b].2) - f64::from_bits(e.w)).abs() || d.is_nan()) {
                best = Some(i);
            }
        }
        if let Some(i) = best {
            used[i] = true;
            e.w = real[i].2;
        }
    }
    m.approx_weights = false;
}

/// replace the model's content by what the real graph shows (insertion order of edges is then unknown)
fn resync(obs: &Obs, m: &mut Model, specs: Specs) {
    m.specs = specs;
    m.nodes = obs.nodes.clone();
    m.edges = obs.edges.iter().map(|e| ME { u: e.0.clone(), v: e.1.clone(), w: e.2, attr: e.3 }).collect();
    m.approx_weights = false;
    m.attrs_unspecified = false;
}

pub fn ops_hash(ops: &[Op]) -> u64 {
    crate::core::rng::hash_str(&format!("{:?}", ops))
}

/// Run the history. Returns the final (graph, model, model_in_sync).
pub fn drive(case: &Case, cx: &mut Ctx, arms: &Arms) -> Option<(G, Model, bool)> {
    let id = &case.prop;
    let mut g = real::new_graph(case.specs);
    let mut m = Model::new(case.specs);
    let mut in_sync = true;
    let mut rejected = 0u64;
    cx.count(&format!("specs.{}", case.specs.index()));
    cx.add("ops", case.ops.len() as u64);
    for (i, op) in case.ops.iter().enumerate() {
        let pre = match real::observe(&g) {
            Ok(o) => o,
            Err(Panicked(p)) => {
                cx.fail(&format!("{}.observe_panic", id), "observe", format!("get_all_nodes/get_all_edges panicked before step {}: {}", i, p));
                return None;
            }
        };
        let m_pre = m.clone();
        let exp: Expect = m.apply(op);
        cx.count(&format!("op.{}", op.name()));

        let out: Result<Out, Panicked> = if arms.c15 && op.is_derived() {
            super::c15::derived_step(i, op, &mut g, &pre, &exp, &m, cx)
        } else {
            real::apply(&mut g, op)
        };
        let post = match real::observe(&g) {
            Ok(o) => o,
            Err(Panicked(p)) => {
                cx.fail(&format!("{}.observe_panic", id), "observe", format!("get_all_nodes/get_all_edges panicked after step {} ({}): {}", i, op.name(), p));
                return None;
            }
        };
        cx.ev(post.digest());
        match &out {
            Ok(Out::Err(k)) => {
                rejected += 1;
                cx.count(&format!("rejected.{:?}", k));
            }
            Ok(Out::Ok) => {}
            Err(_) => cx.count("panicked_ops"),
        }

        if arms.c01 {
            if !super::c01::check_step(i, op, &pre, &out, &exp, &post, &m, &m_pre, case, cx) {
                return None; // after a C01 violation the lockstep is meaningless
            }
        }
        // keep the model usable for the other arms
        let real_specs = Specs::from_real(&g.specs);
        if out.is_err() {
            if !arms.c01 && !(arms.c15 && op.is_derived()) {
                cx.count("skipped.op_panicked");
            }
            resync(&post, &mut m, real_specs);
            in_sync = false;
        } else if state_mismatch(&post, &m).is_some() || real_specs != m.specs {
            cx.count("model_diverged_resynced");
            resync(&post, &mut m, real_specs);
            in_sync = false;
        } else if m.approx_weights {
            adopt_weights(&post, &mut m);
        }

        if arms.c02 {
            super::c02::check_views(i, &g, &m, in_sync, case, cx);
        }
        if arms.c03 {
            super::c03::check_traversal(i, op, &g, &m, case, cx);
        }
        if arms.c09 {
            super::c09::check_counts(i, &g, &m, case, cx);
        }
        if !cx.viol.is_empty() {
            return None;
        }
    }
    if let Ok(o) = real::observe(&g) {
        cx.states.push(o.digest());
        if rejected > 0 && !o.edges.is_empty() {
            cx.count("nt.rejected_and_edges");
        }
    }
    Some((g, m, in_sync))
}
