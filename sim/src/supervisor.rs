//! Supervisor: shards the sample over worker processes, contains crashes and hangs, triages violations
//! against the known-findings file, minimises, writes replay files and the evidence file.
use crate::core::case::*;
use crate::core::json::J;
use crate::props::{self, Prop, Tier};
use std::collections::{BTreeMap, HashSet};
use std::io::{BufRead, BufReader};
use std::process::{Command, Stdio};
use std::sync::mpsc;
use std::time::Instant;

pub struct SupArgs {
    pub prop: String,
    pub tier: Tier,
    pub seed: u64,
    pub workers: usize,
    pub runs: Option<u64>,
    pub verif_dir: String,
    /// where evidence and replay files go: verif_dir, or a scratch directory when another tree than /repo is under test
    pub out_dir: String,
    /// cross-check mode (real-rayon engine): write only this summary file, leave the evidence file alone
    pub summary_only: Option<String>,
    pub emit_fp: bool,
}

#[derive(Default)]
pub struct Merged {
    pub counters: BTreeMap<String, u64>,
    pub nt: HashSet<u64>,
    pub states: HashSet<u64>,
    pub fps: HashSet<u64>,
    pub cases: u64,
    pub steps: u64,
    pub calls: u64,
    pub max_steps: u64,
    pub max_frac_ppm: u64,
    pub viol_cases: u64,
    pub samples: Vec<J>,
    pub violations: Vec<(u64, Case, Vec<Violation>)>,
    pub extra_sigs: Vec<(String, String)>,
    pub crashes: Vec<(u64, String)>,
    pub fp_by_idx: BTreeMap<u64, u64>,
    pub stopped_early: bool,
}

enum Msg {
    Line(usize, String),
    Exit(usize, Option<i32>),
}

fn hex_set(rest: &str, set: &mut HashSet<u64>) {
    for t in rest.split_ascii_whitespace() {
        if let Ok(x) = u64::from_str_radix(t, 16) {
            set.insert(x);
        }
    }
}

pub fn collect(a: &SupArgs, total: u64) -> Result<Merged, String> {
    let exe = std::env::current_exe().map_err(|e| e.to_string())?;
    let w = a.workers.max(1).min(total.max(1) as usize);
    let (tx, rx) = mpsc::channel::<Msg>();
    let spawn = |slot: usize, from: u64, tx: mpsc::Sender<Msg>| -> Result<(), String> {
        let mut cmd = Command::new(&exe);
        cmd.arg("worker")
            .arg("--prop").arg(&a.prop)
            .arg("--tier").arg(a.tier.name())
            .arg("--seed").arg(a.seed.to_string())
            .arg("--from").arg(from.to_string())
            .arg("--to").arg(total.to_string())
            .arg("--stride").arg(w.to_string())
            .stdout(Stdio::piped())
            .stderr(Stdio::inherit());
        if a.emit_fp {
            cmd.env("VERIF_EMIT_FP", "1");
        }
        let mut child = cmd.spawn().map_err(|e| format!("cannot spawn worker: {}", e))?;
        let out = child.stdout.take().unwrap();
        std::thread::spawn(move || {
            let rd = BufReader::with_capacity(1 << 16, out);
            for line in rd.lines() {
                match line {
                    Ok(l) => {
                        if tx.send(Msg::Line(slot, l)).is_err() {
                            break;
                        }
                    }
                    Err(_) => break,
                }
            }
            let code = child.wait().ok().and_then(|s| s.code());
            let _ = tx.send(Msg::Exit(slot, code));
        });
        Ok(())
    };
    for slot in 0..w {
        spawn(slot, slot as u64, tx.clone())?;
    }
    let mut m = Merged::default();
    let mut current: Vec<Option<u64>> = vec![None; w];
    let mut done: Vec<bool> = vec![false; w];
    let mut recycle: Vec<Option<u64>> = vec![None; w];
    let mut live = w;
    let mut restarts = 0;
    let mut violating = 0u64;
    let mut begun = 0u64;
    let mut stopping = false;
    while live > 0 {
        if violating >= 400 && !stopping {
            // the tree under test fails wholesale: stop the sample early, what was found is reported
            stopping = true;
            m.stopped_early = true;
            let _ = Command::new("pkill").arg("-P").arg(std::process::id().to_string()).status();
        }
        let msg = rx.recv().map_err(|e| e.to_string())?;
        match msg {
            Msg::Line(slot, l) => {
                if let Some(rest) = l.strip_prefix("B ") {
                    current[slot] = rest.trim().parse().ok();
                    begun += 1;
                } else if let Some(rest) = l.strip_prefix("E ") {
                    let mut it = rest.split_ascii_whitespace();
                    if let (Some(i), Some(f)) = (it.next(), it.next()) {
                        if let (Ok(i), Ok(f)) = (i.parse::<u64>(), u64::from_str_radix(f, 16)) {
                            m.fp_by_idx.insert(i, f);
                        }
                    }
                } else if let Some(rest) = l.strip_prefix("STATS ") {
                    if let Ok(j) = J::parse(rest) {
                        let g = |k: &str| j.get(k).and_then(|x| x.u64()).unwrap_or(0);
                        m.cases += g("cases");
                        m.steps += g("steps");
                        m.calls += g("calls");
                        m.max_steps = m.max_steps.max(g("max_steps"));
                        m.max_frac_ppm = m.max_frac_ppm.max(g("max_frac_ppm"));
                        m.viol_cases += g("viol_cases");
                        if let Some(J::Obj(o)) = j.get("counters") {
                            for (k, v) in o {
                                let v = v.u64().unwrap_or(0);
                                if k.starts_with("max.") {
                                    let e = m.counters.entry(k.clone()).or_insert(0);
                                    if v > *e {
                                        *e = v
                                    }
                                } else {
                                    *m.counters.entry(k.clone()).or_insert(0) += v;
                                }
                            }
                        }
                    }
                } else if let Some(rest) = l.strip_prefix("NT ") {
                    hex_set(rest, &mut m.nt);
                } else if let Some(rest) = l.strip_prefix("ST ") {
                    hex_set(rest, &mut m.states);
                } else if let Some(rest) = l.strip_prefix("FP ") {
                    hex_set(rest, &mut m.fps);
                } else if let Some(rest) = l.strip_prefix("SAMPLE ") {
                    if m.samples.len() < 4 {
                        if let Ok(j) = J::parse(rest) {
                            m.samples.push(j);
                        }
                    }
                } else if let Some(rest) = l.strip_prefix("VS ") {
                    violating += 1;
                    if let Ok(J::Arr(v)) = J::parse(rest) {
                        if v.len() == 2 {
                            m.extra_sigs.push((v[0].str().unwrap_or("").to_string(), v[1].str().unwrap_or("").to_string()));
                        }
                    }
                } else if let Some(rest) = l.strip_prefix("V ") {
                    violating += 1;
                    match J::parse(rest) {
                        Ok(j) => {
                            let idx = j.get("idx").and_then(|x| x.u64()).unwrap_or(0);
                            let case = j.get("case").ok_or("V without case".to_string()).and_then(Case::from_json);
                            let vs: Vec<Violation> = j
                                .get("violations")
                                .and_then(|x| x.arr())
                                .map(|a| {
                                    a.iter()
                                        .map(|v| Violation {
                                            oracle: v.get("oracle").and_then(|x| x.str()).unwrap_or("").to_string(),
                                            sig: v.get("sig").and_then(|x| x.str()).unwrap_or("").to_string(),
                                            detail: v.get("detail").and_then(|x| x.str()).unwrap_or("").to_string(),
                                        })
                                        .collect()
                                })
                                .unwrap_or_default();
                            match case {
                                Ok(c) => m.violations.push((idx, c, vs)),
                                Err(e) => return Err(format!("unparsable violation record from worker: {}", e)),
                            }
                        }
                        Err(e) => return Err(format!("unparsable V line: {}", e)),
                    }
                } else if l.starts_with("WALLHANG ") {
                    // handled at exit
                    m.crashes.push((current[slot].unwrap_or(0), l.clone()));
                } else if let Some(rest) = l.strip_prefix("RECYCLE ") {
                    recycle[slot] = rest.trim().parse().ok();
                } else if l == "DONE" {
                    done[slot] = true;
                }
            }
            Msg::Exit(slot, code) => {
                if stopping {
                    live -= 1;
                } else if done[slot] && code == Some(0) {
                    live -= 1;
                } else if let (Some(crate::runner::EXIT_RECYCLE), Some(next)) = (code, recycle[slot].take()) {
                    spawn(slot, next, tx.clone())?;
                } else {
                    // the worker died inside case current[slot]: record, restart after it
                    let idx = current[slot].unwrap_or(slot as u64);
                    let why = match code {
                        Some(c) if c == crate::runner::EXIT_WALL_HANG => "wall-clock backstop: the call neither returned nor allocated".to_string(),
                        Some(c) => format!("worker exited with code {}", c),
                        None => "worker killed by a signal (stack overflow / abort / out of memory)".to_string(),
                    };
                    if !m.crashes.iter().any(|(i, _)| *i == idx) || code != Some(crate::runner::EXIT_WALL_HANG) {
                        m.crashes.push((idx, why));
                    }
                    restarts += 1;
                    if restarts > 60 {
                        // the tree under test kills workers wholesale: report what was found so far
                        eprintln!("graphsim: more than 60 worker deaths, stopping the sample early");
                        return Ok(m);
                    }
                    let next = idx + w as u64;
                    if next < total {
                        done[slot] = false;
                        spawn(slot, next, tx.clone())?;
                    } else {
                        live -= 1;
                    }
                }
            }
        }
    }
    if m.stopped_early && m.cases < begun {
        m.cases = begun; // workers were stopped before their last statistics flush
    }
    Ok(m)
}

pub struct Outcome {
    pub exit: i32,
}

pub fn supervise(a: SupArgs) -> Outcome {
    let t0 = Instant::now();
    let prop: &'static dyn Prop = match props::by_id(&a.prop) {
        Some(p) => p,
        None => {
            eprintln!("unknown property {}", a.prop);
            return Outcome { exit: 2 };
        }
    };
    println!("graphsim: property={} tier={} VERIF_SEED={} engine={}", prop.id(), a.tier.name(), a.seed, crate::pool::ENGINE);
    let mut a = a;
    a.out_dir = if crate::core::rt::repo_dir() == "/repo" { a.verif_dir.clone() } else { format!("{}/target/alt-out", a.verif_dir) };
    let total = a.runs.unwrap_or_else(|| prop.runs(a.tier));
    // stale replay files of this property would be mistaken for this run's
    if a.summary_only.is_none() {
    if let Ok(rd) = std::fs::read_dir(format!("{}/replays", a.out_dir)) {
        for e in rd.flatten() {
            if e.file_name().to_string_lossy().starts_with(&format!("{}-", prop.id())) {
                let _ = std::fs::remove_file(e.path());
            }
        }
    }
    }
    let mut m = match collect(&a, total) {
        Ok(m) => m,
        Err(e) => {
            eprintln!("HARNESS ERROR: {}", e);
            return Outcome { exit: 2 };
        }
    };
    // crashed cases are violations "the call did not return": regenerate the case for the replay file
    let crashes = std::mem::take(&mut m.crashes);
    for (idx, why) in crashes {
        let cseed = props::case_seed(a.seed, prop.id(), idx);
        let case = prop.gen(cseed, idx, a.tier);
        let sig = prop.hang_sig(&case, "process-death");
        m.violations.push((idx, case, vec![Violation { oracle: format!("{}.crash", prop.id()), sig, detail: why }]));
        m.viol_cases += 1;
    }
    let known = crate::known::load(&a.verif_dir);
    let mut exit = 0;
    // harness errors are never violations
    if m.violations.iter().any(|(_, _, vs)| vs.iter().any(|v| v.oracle.starts_with("HARNESS."))) {
        for (idx, _, vs) in &m.violations {
            for v in vs.iter().filter(|v| v.oracle.starts_with("HARNESS.")) {
                eprintln!("HARNESS ERROR in case {}: {} {}", idx, v.oracle, v.detail);
            }
        }
        return Outcome { exit: 2 };
    }
    // group by (oracle, sig)
    let mut groups: BTreeMap<(String, String), Vec<usize>> = BTreeMap::new();
    for (i, (_, _, vs)) in m.violations.iter().enumerate() {
        for v in vs {
            groups.entry((v.oracle.clone(), v.sig.clone())).or_default().push(i);
        }
    }
    let mut extra_unknown = 0;
    for (o, s) in &m.extra_sigs {
        if !groups.contains_key(&(o.clone(), s.clone())) && known.matches(prop.id(), o, s).is_none() {
            extra_unknown += 1;
        }
    }
    let mut known_hits: BTreeMap<String, u64> = BTreeMap::new();
    let mut reported = 0;
    let mut replay_paths: Vec<String> = vec![];
    let _ = std::fs::create_dir_all(format!("{}/replays", a.out_dir));
    // unknown groups: write the replay files, minimise them in parallel child processes (a candidate may hang or
    // crash), confirm each minimised file in a fresh process, then report
    struct Pending {
        oracle: String,
        sig: String,
        path: String,
        members: usize,
        detail: String,
        child: Option<std::process::Child>,
    }
    let mut pending: Vec<Pending> = vec![];
    for ((oracle, sig), members) in &groups {
        if let Some(k) = known.matches(prop.id(), oracle, sig) {
            *known_hits.entry(k).or_insert(0) += members.len() as u64;
            continue;
        }
        reported += 1;
        if reported > 6 {
            continue; // enough replay files; the count is in the evidence
        }
        // the member with the fewest ops is the best starting point for minimisation
        let best = members.iter().copied().min_by_key(|i| (m.violations[*i].1.ops.len(), m.violations[*i].0)).unwrap();
        let (idx, case, vs) = &m.violations[best];
        let v = vs.iter().find(|v| &v.oracle == oracle && &v.sig == sig).unwrap();
        let path = format!("{}/replays/{}-{}-{}{}.json", a.out_dir, prop.id(), oracle.replace('.', "_"), idx, if a.summary_only.is_some() { "-native" } else { "" });
        let path = if pending.iter().any(|p| p.path == path) { format!("{}.{}.json", path.trim_end_matches(".json"), reported) } else { path };
        let rep = crate::replay::Replay { case: case.clone(), oracle: oracle.clone(), sig: sig.clone(), detail: v.detail.clone(), minimised: false, tier: a.tier };
        let _ = std::fs::write(&path, rep.to_json().pretty());
        let child = Command::new(std::env::current_exe().unwrap()).arg("minimise").arg(&path).arg(format!("{}.min", path)).stdout(Stdio::null()).stderr(Stdio::null()).spawn().ok();
        pending.push(Pending { oracle: oracle.clone(), sig: sig.clone(), path, members: members.len(), detail: v.detail.clone(), child });
    }
    for p in pending.iter_mut() {
        let min_path = format!("{}.min", p.path);
        let ok = match p.child.take() {
            Some(mut c) => matches!(c.wait(), Ok(s) if s.success()),
            None => false,
        };
        if ok && std::path::Path::new(&min_path).exists() {
            let chk = Command::new(std::env::current_exe().unwrap()).arg("replay").arg(&min_path).stdout(Stdio::null()).status();
            if matches!(chk, Ok(s) if s.code() == Some(1)) {
                let _ = std::fs::rename(&min_path, &p.path);
            } else {
                let _ = std::fs::remove_file(&min_path);
            }
        } else {
            let _ = std::fs::remove_file(&min_path);
        }
        let final_path = std::fs::canonicalize(&p.path).map(|x| x.to_string_lossy().to_string()).unwrap_or(p.path.clone());
        println!("VIOLATION property={} replay={}", prop.id(), final_path);
        println!("  oracle={} sig={:?} cases_in_group={}", p.oracle, p.sig, p.members);
        println!("  {}", p.detail.chars().take(600).collect::<String>());
        replay_paths.push(final_path);
        exit = 1;
    }
    if extra_unknown > 0 && exit == 0 {
        // violations whose full record was not kept and that no known finding covers
        println!("VIOLATION property={} replay=<none: {} further violation signatures were only counted; rerun with a smaller sample>", prop.id(), extra_unknown);
        exit = 1;
    }
    // every listed finding of this property is announced, with how often this run's sample hit it
    for f in known.findings.iter().filter(|f| f.0 == prop.id()) {
        let key = format!("{} [{} / {}]", f.3, f.1, f.2);
        let n = known_hits.get(&key).copied().unwrap_or(0);
        println!("KNOWN-FINDING: property={} {} [{} / {}] (observed in {} cases of this run)", prop.id(), f.3, f.1, f.2, n);
    }
    let wall = t0.elapsed().as_secs_f64();
    match &a.summary_only {
        None => crate::evidence::write(&a, prop, &m, total, wall, reported, &known_hits, &replay_paths),
        Some(file) => {
            let j = J::obj()
                .set("engine", J::s(crate::pool::ENGINE))
                .set("what", J::s("the same property check executed by the harness built against the REAL rayon (OS threads, global pool of the machine's cores, caller-installed pools where the check installs them); schedule not controlled, not replayable: a cross-check, never the deciding engine"))
                .set("cases", J::U(m.cases))
                .set("library_calls", J::U(m.calls))
                .set("violating_cases", J::U(m.viol_cases))
                .set("unknown_violation_groups", J::U(reported as u64))
                .set("wall_s", J::F((wall * 10.0).round() / 10.0));
            let _ = std::fs::write(file, j.pretty());
        }
    }
    println!(
        "graphsim: {} cases, {} distinct fingerprints, {} distinct non-trivial, {} violating cases ({} unknown groups, {} known), {:.1}s",
        m.cases,
        m.fps.len(),
        m.nt.len(),
        m.viol_cases,
        reported,
        known_hits.len(),
        wall
    );
    if m.stopped_early {
        println!("graphsim: the sample was stopped early after 400 violating cases");
    }
    if exit == 0 && m.cases + (m.violations.iter().filter(|(_, _, v)| v.iter().any(|x| x.oracle.ends_with(".crash"))).count() as u64) < total {
        eprintln!("HARNESS ERROR: only {} of {} cases were executed", m.cases, total);
        return Outcome { exit: 2 };
    }
    Outcome { exit }
}
