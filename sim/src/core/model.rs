//! Reference model of the graph container, written from the statements of C01 / C15
//! (DESIGN.md Appendix A), ordered containers only.
use super::case::*;

#[derive(Clone, Copy, Debug, PartialEq, Eq, PartialOrd, Ord, Hash)]
pub enum K {
    SelfLoopsFound,
    NodeNotFound,
    DuplicateEdge,
    WrongMethod,
    EdgeNotFound,
    Other,
}

#[derive(Clone, Copy, Debug, PartialEq, Eq)]
pub enum Out {
    Ok,
    Err(K),
}

/// acceptable outcomes of one operation (more than one only where the statement leaves it open)
#[derive(Clone, Debug)]
pub struct Expect {
    pub outs: Vec<Out>,
}
impl Expect {
    pub fn ok() -> Expect {
        Expect { outs: vec![Out::Ok] }
    }
    pub fn err(k: K) -> Expect {
        Expect { outs: vec![Out::Err(k)] }
    }
    pub fn accepts(&self, o: Out) -> bool {
        self.outs.contains(&o)
    }
    pub fn is_err(&self) -> bool {
        self.outs.iter().all(|o| matches!(o, Out::Err(_)))
    }
}

#[derive(Clone, Debug, PartialEq, Eq)]
pub struct ME {
    pub u: String,
    pub v: String,
    pub w: u64,
    pub attr: Option<u32>,
}

#[derive(Clone, Debug)]
pub struct Model {
    pub specs: Specs,
    pub nodes: Vec<NodeSpec>,
    pub edges: Vec<ME>,
    /// weights of this graph came out of a floating-point summation (to_single_edges): compare approximately, then adopt
    pub approx_weights: bool,
    /// edge attributes are unspecified for this graph (to_single_edges result)
    pub attrs_unspecified: bool,
}

impl Model {
    pub fn new(specs: Specs) -> Model {
        Model { specs, nodes: vec![], edges: vec![], approx_weights: false, attrs_unspecified: false }
    }
    pub fn has(&self, n: &str) -> bool {
        self.nodes.iter().any(|x| x.0 == n)
    }
    pub fn pos(&self, n: &str) -> Option<usize> {
        self.nodes.iter().position(|x| x.0 == n)
    }
    /// does stored edge `e` join a,b in the sense of this graph's directedness
    pub fn joins(&self, e: &ME, a: &str, b: &str) -> bool {
        (e.u == a && e.v == b) || (!self.specs.directed && e.u == b && e.v == a)
    }
    pub fn add_node(&mut self, n: &NodeSpec) {
        match self.pos(&n.0) {
            Some(i) => self.nodes[i].1 = n.1,
            None => self.nodes.push(n.clone()),
        }
    }
    pub fn add_edge(&mut self, e: &E) -> Expect {
        let s = self.specs;
        let loop_rejected = !s.self_loops && e.u == e.v;
        let missing = !self.has(&e.u) || !self.has(&e.v);
        if loop_rejected {
            // two reasons at once: either report is accepted, the state is unchanged either way
            return match s.slf {
                Slf::Error => {
                    if s.missing == Missing::Error && missing {
                        Expect { outs: vec![Out::Err(K::SelfLoopsFound), Out::Err(K::NodeNotFound)] }
                    } else {
                        Expect::err(K::SelfLoopsFound)
                    }
                }
                Slf::Drop => {
                    if s.missing == Missing::Error && missing {
                        Expect { outs: vec![Out::Ok, Out::Err(K::NodeNotFound)] }
                    } else {
                        Expect::ok()
                    }
                }
            };
        }
        if s.missing == Missing::Error && missing {
            return Expect::err(K::NodeNotFound);
        }
        // source first
        if !self.has(&e.u) {
            self.nodes.push((e.u.clone(), None));
        }
        if !self.has(&e.v) {
            self.nodes.push((e.v.clone(), None));
        }
        let me = ME { u: e.u.clone(), v: e.v.clone(), w: e.w, attr: e.attr };
        let existing = self.edges.iter().position(|x| self.joins(x, &e.u, &e.v));
        if !s.multi {
            if let Some(i) = existing {
                return match s.dedupe {
                    Dedupe::Error => Expect::err(K::DuplicateEdge),
                    Dedupe::KeepFirst => Expect::ok(),
                    Dedupe::KeepLast => {
                        self.edges[i] = me;
                        Expect::ok()
                    }
                };
            }
        }
        self.edges.push(me);
        Expect::ok()
    }

    /// Apply a mutating operation. For `Restart` and the derived operations the returned model
    /// (if any) replaces `self` when the expected outcome is Ok.
    pub fn apply(&mut self, op: &Op) -> Expect {
        match op {
            Op::AddNode(n) => {
                self.add_node(n);
                Expect::ok()
            }
            Op::AddNodes(ns) => {
                for n in ns {
                    self.add_node(n);
                }
                Expect::ok()
            }
            Op::AddEdge(e) => self.add_edge(e),
            Op::AddEdgeTuple(u, v) => self.add_edge(&E { u: u.clone(), v: v.clone(), w: NAN_BITS, attr: None }),
            Op::AddEdges(es) => {
                for e in es {
                    let x = self.add_edge(e);
                    if x.is_err() {
                        return x;
                    }
                    debug_assert!(x.outs[0] == Out::Ok);
                    // (an open Ok-or-Err outcome leaves the state unchanged; as a batch element it is
                    // avoided by the generators, see gen_batch)
                }
                Expect::ok()
            }
            Op::AddEdgeTuples(ps) => {
                for (u, v) in ps {
                    let x = self.add_edge(&E { u: u.clone(), v: v.clone(), w: NAN_BITS, attr: None });
                    if x.is_err() {
                        return x;
                    }
                }
                Expect::ok()
            }
            Op::Restart(specs, ns, es) => {
                let mut m = Model::new(*specs);
                for n in ns {
                    m.add_node(n);
                }
                for e in es {
                    let x = m.add_edge(e);
                    if x.is_err() {
                        return x; // no graph; history continues on the old one
                    }
                }
                *self = m;
                Expect::ok()
            }
            Op::Subgraph(names) => {
                let keep = |n: &str| names.iter().any(|x| x == n);
                let m = Model {
                    specs: self.specs,
                    nodes: self.nodes.iter().filter(|n| keep(&n.0)).cloned().collect(),
                    edges: self.edges.iter().filter(|e| keep(&e.u) && keep(&e.v)).cloned().collect(),
                    approx_weights: self.approx_weights,
                    attrs_unspecified: self.attrs_unspecified,
                };
                *self = m;
                Expect::ok()
            }
            Op::Reverse => {
                if !self.specs.directed {
                    return Expect::err(K::WrongMethod);
                }
                for e in self.edges.iter_mut() {
                    std::mem::swap(&mut e.u, &mut e.v);
                }
                Expect::ok()
            }
            Op::SetWeights(w) => {
                for e in self.edges.iter_mut() {
                    e.w = *w;
                }
                self.approx_weights = false;
                Expect::ok()
            }
            Op::ToSingle => {
                if !self.specs.multi {
                    return Expect::err(K::WrongMethod);
                }
                let mut out: Vec<ME> = vec![];
                let mut sums: Vec<f64> = vec![];
                for e in &self.edges {
                    match out.iter().position(|x| self.joins(x, &e.u, &e.v)) {
                        Some(i) => sums[i] += f64::from_bits(e.w),
                        None => {
                            out.push(ME { u: e.u.clone(), v: e.v.clone(), w: 0, attr: None });
                            sums.push(f64::from_bits(e.w));
                        }
                    }
                }
                for (e, s) in out.iter_mut().zip(sums) {
                    e.w = wbits(s);
                }
                self.edges = out;
                self.specs.multi = false;
                self.approx_weights = true;
                self.attrs_unspecified = true;
                Expect::ok()
            }
        }
    }

    /// canonical, sorted description of the state: nodes in order + edge multiset
    pub fn canon_edges(&self) -> Vec<(String, String, u64, Option<u32>)> {
        canon_edges(self.specs.directed, self.edges.iter().map(|e| (e.u.clone(), e.v.clone(), e.w, e.attr)), self.attrs_unspecified)
    }
}

pub fn canon_edges(directed: bool, it: impl Iterator<Item = (String, String, u64, Option<u32>)>, drop_attrs: bool) -> Vec<(String, String, u64, Option<u32>)> {
    let mut v: Vec<_> = it
        .map(|(u, v, w, a)| {
            let a = if drop_attrs { None } else { a };
            let w = if f64::from_bits(w).is_nan() { NAN_BITS } else { w };
            if !directed && u > v {
                (v, u, w, a)
            } else {
                (u, v, w, a)
            }
        })
        .collect();
    v.sort();
    v
}
