//! Minimal JSON (no external crates): enough for replay files, evidence, known findings.
use std::fmt::Write;

#[derive(Clone, Debug, PartialEq)]
pub enum J {
    Null,
    Bool(bool),
    U(u64),
    I(i64),
    F(f64),
    Str(String),
    Arr(Vec<J>),
    Obj(Vec<(String, J)>),
}

impl J {
    pub fn obj() -> J {
        J::Obj(vec![])
    }
    pub fn set(mut self, k: &str, v: J) -> J {
        if let J::Obj(ref mut o) = self {
            if let Some(e) = o.iter_mut().find(|(kk, _)| kk == k) {
                e.1 = v;
            } else {
                o.push((k.to_string(), v));
            }
        }
        self
    }
    pub fn put(&mut self, k: &str, v: J) {
        if let J::Obj(ref mut o) = self {
            if let Some(e) = o.iter_mut().find(|(kk, _)| kk == k) {
                e.1 = v;
            } else {
                o.push((k.to_string(), v));
            }
        }
    }
    pub fn get(&self, k: &str) -> Option<&J> {
        match self {
            J::Obj(o) => o.iter().find(|(kk, _)| kk == k).map(|(_, v)| v),
            _ => None,
        }
    }
    pub fn str(&self) -> Option<&str> {
        match self {
            J::Str(s) => Some(s),
            _ => None,
        }
    }
    pub fn u64(&self) -> Option<u64> {
        match self {
            J::U(u) => Some(*u),
            J::I(i) if *i >= 0 => Some(*i as u64),
            J::F(f) if *f >= 0.0 && f.fract() == 0.0 => Some(*f as u64),
            _ => None,
        }
    }
    pub fn f64(&self) -> Option<f64> {
        match self {
            J::U(u) => Some(*u as f64),
            J::I(i) => Some(*i as f64),
            J::F(f) => Some(*f),
            _ => None,
        }
    }
    pub fn bool(&self) -> Option<bool> {
        match self {
            J::Bool(b) => Some(*b),
            _ => None,
        }
    }
    pub fn arr(&self) -> Option<&Vec<J>> {
        match self {
            J::Arr(a) => Some(a),
            _ => None,
        }
    }
    pub fn s(x: &str) -> J {
        J::Str(x.to_string())
    }
    pub fn strs(v: &[String]) -> J {
        J::Arr(v.iter().map(|s| J::Str(s.clone())).collect())
    }

    pub fn to_string(&self) -> String {
        let mut s = String::new();
        self.write(&mut s, None, 0);
        s
    }
    pub fn pretty(&self) -> String {
        let mut s = String::new();
        self.write(&mut s, Some(1), 0);
        s.push('\n');
        s
    }
    fn write(&self, out: &mut String, indent: Option<usize>, depth: usize) {
        let nl = |out: &mut String, d: usize| {
            if let Some(w) = indent {
                out.push('\n');
                for _ in 0..(d * w) {
                    out.push(' ');
                }
            }
        };
        match self {
            J::Null => out.push_str("null"),
            J::Bool(b) => out.push_str(if *b { "true" } else { "false" }),
            J::U(u) => {
                let _ = write!(out, "{}", u);
            }
            J::I(i) => {
                let _ = write!(out, "{}", i);
            }
            J::F(f) => {
                if f.is_finite() {
                    let _ = write!(out, "{:?}", f);
                } else {
                    // JSON has no inf/nan: keep them as strings
                    let _ = write!(out, "\"{}\"", f);
                }
            }
            J::Str(s) => write_str(out, s),
            J::Arr(a) => {
                out.push('[');
                let simple = a.iter().all(|x| !matches!(x, J::Arr(_) | J::Obj(_)));
                for (i, x) in a.iter().enumerate() {
                    if i > 0 {
                        out.push(',');
                        if simple && indent.is_some() {
                            out.push(' ');
                        }
                    }
                    if !simple {
                        nl(out, depth + 1);
                    }
                    x.write(out, indent, depth + 1);
                }
                if !simple && !a.is_empty() {
                    nl(out, depth);
                }
                out.push(']');
            }
            J::Obj(o) => {
                out.push('{');
                for (i, (k, v)) in o.iter().enumerate() {
                    if i > 0 {
                        out.push(',');
                    }
                    nl(out, depth + 1);
                    write_str(out, k);
                    out.push(':');
                    if indent.is_some() {
                        out.push(' ');
                    }
                    v.write(out, indent, depth + 1);
                }
                if !o.is_empty() {
                    nl(out, depth);
                }
                out.push('}');
            }
        }
    }

    pub fn parse(s: &str) -> Result<J, String> {
        let mut p = P { b: s.as_bytes(), i: 0 };
        p.ws();
        let v = p.val()?;
        p.ws();
        if p.i != p.b.len() {
            return Err(format!("trailing data at byte {}", p.i));
        }
        Ok(v)
    }
}

fn write_str(out: &mut String, s: &str) {
    out.push('"');
    for c in s.chars() {
        match c {
            '"' => out.push_str("\\\""),
            '\\' => out.push_str("\\\\"),
            '\n' => out.push_str("\\n"),
            '\r' => out.push_str("\\r"),
            '\t' => out.push_str("\\t"),
            c if (c as u32) < 0x20 || c == '\u{7f}' => {
                let _ = write!(out, "\\u{:04x}", c as u32);
            }
            c => out.push(c),
        }
    }
    out.push('"');
}

struct P<'a> {
    b: &'a [u8],
    i: usize,
}
impl<'a> P<'a> {
    fn ws(&mut self) {
        while self.i < self.b.len() && matches!(self.b[self.i], b' ' | b'\n' | b'\r' | b'\t') {
            self.i += 1;
        }
    }
    fn val(&mut self) -> Result<J, String> {
        if self.i >= self.b.len() {
            return Err("unexpected end".into());
        }
        match self.b[self.i] {
            b'n' => self.lit("null", J::Null),
            b't' => self.lit("true", J::Bool(true)),
            b'f' => self.lit("false", J::Bool(false)),
            b'"' => Ok(J::Str(self.string()?)),
            b'[' => {
                self.i += 1;
                let mut a = vec![];
                self.ws();
                if self.peek() == Some(b']') {
                    self.i += 1;
                    return Ok(J::Arr(a));
                }
                loop {
                    self.ws();
                    a.push(self.val()?);
                    self.ws();
                    match self.peek() {
                        Some(b',') => self.i += 1,
                        Some(b']') => {
                            self.i += 1;
                            return Ok(J::Arr(a));
                        }
                        _ => return Err(format!("expected , or ] at {}", self.i)),
                    }
                }
            }
            b'{' => {
                self.i += 1;
                let mut o = vec![];
                self.ws();
                if self.peek() == Some(b'}') {
                    self.i += 1;
                    return Ok(J::Obj(o));
                }
                loop {
                    self.ws();
                    let k = self.string()?;
                    self.ws();
                    if self.peek() != Some(b':') {
                        return Err(format!("expected : at {}", self.i));
                    }
                    self.i += 1;
                    self.ws();
                    let v = self.val()?;
                    o.push((k, v));
                    self.ws();
                    match self.peek() {
                        Some(b',') => self.i += 1,
                        Some(b'}') => {
                            self.i += 1;
                            return Ok(J::Obj(o));
                        }
                        _ => return Err(format!("expected , or }} at {}", self.i)),
                    }
                }
            }
            _ => self.num(),
        }
    }
    fn peek(&self) -> Option<u8> {
        self.b.get(self.i).copied()
    }
    fn lit(&mut self, w: &str, v: J) -> Result<J, String> {
        if self.b[self.i..].starts_with(w.as_bytes()) {
            self.i += w.len();
            Ok(v)
        } else {
            Err(format!("bad literal at {}", self.i))
        }
    }
    fn num(&mut self) -> Result<J, String> {
        let st = self.i;
        while self.i < self.b.len() && matches!(self.b[self.i], b'-' | b'+' | b'.' | b'e' | b'E' | b'0'..=b'9') {
            self.i += 1;
        }
        let t = std::str::from_utf8(&self.b[st..self.i]).map_err(|e| e.to_string())?;
        if t.is_empty() {
            return Err(format!("unexpected byte at {}", st));
        }
        if t.contains(['.', 'e', 'E']) {
            t.parse::<f64>().map(J::F).map_err(|e| e.to_string())
        } else if t.starts_with('-') {
            t.parse::<i64>().map(J::I).map_err(|e| e.to_string())
        } else {
            t.parse::<u64>().map(J::U).map_err(|e| e.to_string())
        }
    }
    fn string(&mut self) -> Result<String, String> {
        if self.peek() != Some(b'"') {
            return Err(format!("expected string at {}", self.i));
        }
        self.i += 1;
        let mut out: Vec<u8> = vec![];
        loop {
            let c = *self.b.get(self.i).ok_or("unterminated string")?;
            self.i += 1;
            match c {
                b'"' => break,
                b'\\' => {
                    let e = *self.b.get(self.i).ok_or("bad escape")?;
                    self.i += 1;
                    match e {
                        b'n' => out.push(b'\n'),
                        b'r' => out.push(b'\r'),
                        b't' => out.push(b'\t'),
                        b'b' => out.push(8),
                        b'f' => out.push(12),
                        b'u' => {
                            let h = std::str::from_utf8(self.b.get(self.i..self.i + 4).ok_or("bad \\u")?).map_err(|e| e.to_string())?;
                            let mut cp = u32::from_str_radix(h, 16).map_err(|e| e.to_string())?;
                            self.i += 4;
                            if (0xD800..0xDC00).contains(&cp) && self.b.get(self.i) == Some(&b'\\') && self.b.get(self.i + 1) == Some(&b'u') {
                                let h2 = std::str::from_utf8(self.b.get(self.i + 2..self.i + 6).ok_or("bad \\u")?).map_err(|e| e.to_string())?;
                                let lo = u32::from_str_radix(h2, 16).map_err(|e| e.to_string())?;
                                self.i += 6;
                                cp = 0x10000 + ((cp - 0xD800) << 10) + (lo - 0xDC00);
                            }
                            let ch = char::from_u32(cp).unwrap_or('\u{fffd}');
                            let mut buf = [0u8; 4];
                            out.extend_from_slice(ch.encode_utf8(&mut buf).as_bytes());
                        }
                        other => out.push(other),
                    }
                }
                c => out.push(c),
            }
        }
        String::from_utf8(out).map_err(|e| e.to_string())
    }
}
