//! The real graphrs container driven by the same operations as the model.
use super::case::*;
use super::model::{Out, K};
use super::rt::{self, Panicked};
use graphrs::{Edge, Error, ErrorKind, Graph, Node};
use std::sync::Arc;

pub type G = Graph<String, u32>;

pub fn kind(e: &ErrorKind) -> K {
    match e {
        ErrorKind::SelfLoopsFound => K::SelfLoopsFound,
        ErrorKind::NodeNotFound => K::NodeNotFound,
        ErrorKind::DuplicateEdge => K::DuplicateEdge,
        ErrorKind::WrongMethod => K::WrongMethod,
        ErrorKind::EdgeNotFound => K::EdgeNotFound,
        _ => K::Other,
    }
}
pub fn out_of<T>(r: &Result<T, Error>) -> Out {
    match r {
        Ok(_) => Out::Ok,
        Err(e) => Out::Err(kind(&e.kind)),
    }
}

pub fn mk_node(n: &NodeSpec) -> Arc<Node<String, u32>> {
    Arc::new(Node { name: n.0.clone(), attributes: n.1 })
}
pub fn mk_edge(e: &E) -> Arc<Edge<String, u32>> {
    Arc::new(Edge { u: e.u.clone(), v: e.v.clone(), attributes: e.attr, weight: e.weight() })
}

type ArcKey = (String, String, u64, Option<u32>);
thread_local! {
    /// edges handed to the library earlier in this run: a caller that re-adds an edge (a retried batch, a
    /// template edge) passes the same Arc again
    static ARCS: std::cell::RefCell<std::collections::BTreeMap<ArcKey, Arc<Edge<String, u32>>>> = const { std::cell::RefCell::new(std::collections::BTreeMap::new()) };
}
fn arc_of(e: &E) -> Arc<Edge<String, u32>> {
    ARCS.with(|a| {
        let mut a = a.borrow_mut();
        let key: ArcKey = (e.u.clone(), e.v.clone(), e.w, e.attr);
        if let Some(arc) = a.get(&key) {
            return arc.clone();
        }
        let arc = mk_edge(e);
        if a.len() < 20_000 {
            a.insert(key, arc.clone());
        }
        arc
    })
}

pub fn new_graph(specs: Specs) -> G {
    ARCS.with(|a| a.borrow_mut().clear());
    Graph::new(specs.to_real())
}

/// generous step budget for container operations on the small lifecycle graphs
pub const OP_BUDGET: u64 = 50_000_000;

/// Apply one operation to the real graph. Derived operations and restarts replace `*g` on Ok.
pub fn apply(g: &mut G, op: &Op) -> Result<Out, Panicked> {
    let label = op.name();
    match op {
        Op::AddNode(n) => rt::call(label, OP_BUDGET, || {
            g.add_node(mk_node(n));
            Out::Ok
        }),
        Op::AddNodes(ns) => rt::call(label, OP_BUDGET, || {
            g.add_nodes(ns.iter().map(mk_node).collect());
            Out::Ok
        }),
        Op::AddEdge(e) => {
            let arc = arc_of(e);
            rt::call(label, OP_BUDGET, move || out_of(&g.add_edge(arc)))
        }
        Op::AddEdgeTuple(u, v) => rt::call(label, OP_BUDGET, || out_of(&g.add_edge_tuple(u.clone(), v.clone()))),
        Op::AddEdges(es) => {
            // an edge value inserted before (in this batch or earlier in the run) is passed as the same Arc
            let arcs: Vec<Arc<Edge<String, u32>>> = es.iter().map(arc_of).collect();
            rt::call(label, OP_BUDGET, move || out_of(&g.add_edges(arcs)))
        }
        Op::AddEdgeTuples(ps) => rt::call(label, OP_BUDGET, || out_of(&g.add_edge_tuples(ps.clone()))),
        Op::Restart(specs, ns, es) => {
            let r = rt::call(label, OP_BUDGET, || G::new_from_nodes_and_edges(ns.iter().map(mk_node).collect(), es.iter().map(mk_edge).collect(), specs.to_real()))?;
            Ok(replace(g, r))
        }
        Op::Subgraph(names) => {
            let r = rt::call(label, OP_BUDGET, || g.get_subgraph(names))?;
            *g = r;
            Ok(Out::Ok)
        }
        Op::Reverse => {
            let r = rt::call(label, OP_BUDGET, || g.reverse())?;
            Ok(replace(g, r))
        }
        Op::SetWeights(w) => {
            let r = rt::call(label, OP_BUDGET, || g.set_all_edge_weights(f64::from_bits(*w)))?;
            *g = r;
            Ok(Out::Ok)
        }
        Op::ToSingle => {
            let r = rt::call(label, OP_BUDGET, || g.to_single_edges())?;
            Ok(replace(g, r))
        }
    }
}

fn replace(g: &mut G, r: Result<G, Error>) -> Out {
    match r {
        Ok(n) => {
            *g = n;
            Out::Ok
        }
        Err(e) => Out::Err(kind(&e.kind)),
    }
}

/// Build a graph by replaying a history, ignoring rejected operations (their outcome is C01's business).
pub fn build(specs: Specs, ops: &[Op]) -> Result<G, Panicked> {
    let mut g = new_graph(specs);
    for op in ops {
        apply(&mut g, op)?;
    }
    Ok(g)
}

/// What the public API shows of the container state.
#[derive(Clone, Debug, PartialEq, Eq)]
pub struct Obs {
    pub directed: bool,
    pub nodes: Vec<NodeSpec>,
    /// edges as stored (orientation as stored), unsorted
    pub edges: Vec<(String, String, u64, Option<u32>)>,
}

pub fn observe(g: &G) -> Result<Obs, Panicked> {
    rt::call("observe", OP_BUDGET, || Obs {
        directed: g.specs.directed,
        nodes: g.get_all_nodes().iter().map(|n| (n.name.clone(), n.attributes)).collect(),
        edges: g.get_all_edges().iter().map(|e| (e.u.clone(), e.v.clone(), wbits(e.weight), e.attributes)).collect(),
    })
}

impl Obs {
    pub fn canon(&self, drop_attrs: bool) -> Vec<(String, String, u64, Option<u32>)> {
        super::model::canon_edges(self.directed, self.edges.iter().cloned(), drop_attrs)
    }
    pub fn digest(&self) -> u64 {
        let mut fp = super::rng::Fp(0);
        fp.add(self.directed as u64);
        for n in &self.nodes {
            fp.add_str(&n.0);
            fp.add(n.1.map(|x| x as u64 + 1).unwrap_or(0));
        }
        for e in self.canon(false) {
            fp.add_str(&e.0);
            fp.add_str(&e.1);
            fp.add(e.2);
            fp.add(e.3.map(|x| x as u64 + 1).unwrap_or(0));
        }
        fp.0
    }
}

/// Index-based snapshot of a real graph, taken through the public API only; what the algorithm oracles work on.
#[derive(Clone, Debug)]
pub struct Snap {
    pub directed: bool,
    pub multi: bool,
    pub names: Vec<String>,
    /// (u, v, weight) by position in `names`, as stored
    pub edges: Vec<(usize, usize, f64)>,
}

impl Snap {
    pub fn of(g: &G) -> Result<Snap, Panicked> {
        let o = observe(g)?;
        Ok(Snap::from_obs(&o, g.specs.multi_edges))
    }
    pub fn from_obs(o: &Obs, multi: bool) -> Snap {
        let names: Vec<String> = o.nodes.iter().map(|n| n.0.clone()).collect();
        let index: std::collections::BTreeMap<&str, usize> = names.iter().enumerate().rev().map(|(i, s)| (s.as_str(), i)).collect();
        let pos = |s: &String| index.get(s.as_str()).copied().unwrap_or(usize::MAX);
        let edges = o.edges.iter().map(|e| (pos(&e.0), pos(&e.1), f64::from_bits(e.2))).filter(|e| e.0 != usize::MAX && e.1 != usize::MAX).collect();
        Snap { directed: o.directed, multi, names, edges }
    }
    pub fn n(&self) -> usize {
        self.names.len()
    }
    pub fn weighted(&self) -> bool {
        self.edges.iter().all(|e| !e.2.is_nan())
    }
    /// out-adjacency (both directions when undirected) with the minimum weight per pair; hop = weight 1
    pub fn adj_min(&self, hop: bool) -> Vec<Vec<(usize, f64)>> {
        let n = self.n();
        let mut a: Vec<Vec<(usize, f64)>> = vec![vec![]; n];
        if n > 5000 {
            // large graphs: sort and merge instead of a linear search per edge
            let mut all: Vec<(usize, usize, f64)> = Vec::with_capacity(self.edges.len() * 2);
            for &(u, v, w) in &self.edges {
                let w = if hop { 1.0 } else { w };
                all.push((u, v, w));
                if !self.directed && u != v {
                    all.push((v, u, w));
                }
            }
            all.sort_by(|x, y| (x.0, x.1).cmp(&(y.0, y.1)).then(x.2.total_cmp(&y.2)));
            for (u, v, w) in all {
                match a[u].last_mut() {
                    Some(l) if l.0 == v => {
                        if w < l.1 {
                            l.1 = w
                        }
                    }
                    _ => a[u].push((v, w)),
                }
            }
            return a;
        }
        let mut put = |u: usize, v: usize, w: f64| match a[u].iter_mut().find(|x| x.0 == v) {
            Some(x) => {
                if w < x.1 {
                    x.1 = w
                }
            }
            None => a[u].push((v, w)),
        };
        for &(u, v, w) in &self.edges {
            let w = if hop { 1.0 } else { w };
            put(u, v, w);
            if !self.directed && u != v {
                put(v, u, w);
            }
        }
        for l in a.iter_mut() {
            l.sort_by(|x, y| x.0.cmp(&y.0));
        }
        a
    }
    /// neighbour sets without self-loops: (succ, pred); for undirected graphs both are the neighbour sets
    pub fn nbr_sets(&self) -> (Vec<Vec<usize>>, Vec<Vec<usize>>) {
        let n = self.n();
        let mut s: Vec<Vec<usize>> = vec![vec![]; n];
        let mut p: Vec<Vec<usize>> = vec![vec![]; n];
        for &(u, v, _) in &self.edges {
            if u == v {
                continue;
            }
            if !s[u].contains(&v) {
                s[u].push(v)
            }
            if !p[v].contains(&u) {
                p[v].push(u)
            }
            if !self.directed {
                if !s[v].contains(&u) {
                    s[v].push(u)
                }
                if !p[u].contains(&v) {
                    p[u].push(v)
                }
            }
        }
        for l in s.iter_mut().chain(p.iter_mut()) {
            l.sort();
        }
        (s, p)
    }
}
