//! Run-time seams owned by the simulator:
//!  H  hash keying  — an interposed libc `getrandom`, so `RandomState` keys of a run thread derive from the run seed
//!  L  step clock   — a counting global allocator; allocations made by library calls are the logical clock,
//!                    a call that exceeds its budget is parked forever and reported as a hang
//!  panics          — a silent hook that records the message, `call()` converts unwinds into values
use std::alloc::{GlobalAlloc, Layout, System};
use std::cell::{Cell, RefCell};
use std::sync::atomic::{AtomicU32, AtomicU64, Ordering};
use std::sync::{Arc, Mutex};

// ---------------------------------------------------------------- H seam
thread_local! {
    static H_ACTIVE: Cell<bool> = const { Cell::new(false) };
    static H_SEED: Cell<u64> = const { Cell::new(0) };
    static H_CALLS: Cell<u64> = const { Cell::new(0) };
}
pub static SHIM_CALLS: AtomicU64 = AtomicU64::new(0);

/// std asks libc's `getrandom` for the per-thread SipHash keys; this definition wins at link time.
#[no_mangle]
pub unsafe extern "C" fn getrandom(buf: *mut libc::c_void, len: usize, flags: libc::c_uint) -> isize {
    SHIM_CALLS.fetch_add(1, Ordering::Relaxed);
    let active = H_ACTIVE.try_with(|a| a.get()).unwrap_or(false);
    if !active {
        return libc::syscall(libc::SYS_getrandom, buf, len, flags) as isize;
    }
    let seed = H_SEED.with(|s| s.get());
    let call = H_CALLS.with(|c| {
        let v = c.get();
        c.set(v + 1);
        v
    });
    let out = std::slice::from_raw_parts_mut(buf as *mut u8, len);
    if seed == 0 {
        // "keying 0": all-zero keys
        for b in out.iter_mut() {
            *b = 0;
        }
        return len as isize;
    }
    let mut s = seed ^ call.wrapping_mul(0xA24BAED4963EE407);
    let mut i = 0;
    while i < len {
        let w = super::rng::splitmix(&mut s).to_le_bytes();
        let n = std::cmp::min(8, len - i);
        out[i..i + n].copy_from_slice(&w[..n]);
        i += n;
    }
    len as isize
}

/// Must be the first thing a fresh run thread does (before it creates any hash map).
pub fn set_thread_keying(seed: u64) {
    H_SEED.with(|s| s.set(seed));
    H_CALLS.with(|c| c.set(0));
    H_ACTIVE.with(|a| a.set(true));
}
pub fn thread_keying_calls() -> u64 {
    H_CALLS.with(|c| c.get())
}

/// Start-up self-test of the H seam. Err(text) = harness error (exit 2), never a violation.
pub fn hash_seam_selftest() -> Result<(), String> {
    fn order(seed: u64) -> (Vec<u32>, u64) {
        std::thread::spawn(move || {
            set_thread_keying(seed);
            let mut m = std::collections::HashMap::new();
            for i in 0..64u32 {
                m.insert(i, ());
            }
            let mut s = std::collections::HashSet::new();
            for i in 0..64u32 {
                s.insert(format!("n{}", i));
            }
            let mut v: Vec<u32> = m.keys().copied().collect();
            v.extend(s.iter().map(|x| x.len() as u32 + x.as_bytes()[1] as u32));
            (v, thread_keying_calls())
        })
        .join()
        .unwrap()
    }
    let before = SHIM_CALLS.load(Ordering::Relaxed);
    let (a, ca) = order(12345);
    let (b, _) = order(12345);
    let (c, _) = order(54321);
    let (z1, _) = order(0);
    let (z2, _) = order(0);
    let after = SHIM_CALLS.load(Ordering::Relaxed);
    if after == before || ca == 0 {
        return Err("hash seam: the interposed getrandom was never called (std no longer uses the libc symbol?)".into());
    }
    if a != b || z1 != z2 {
        return Err("hash seam: equal keying seeds gave different iteration orders".into());
    }
    if a == c {
        return Err("hash seam: different keying seeds gave the same iteration order".into());
    }
    Ok(())
}

// ---------------------------------------------------------------- L seam
thread_local! {
    static C_ARMED: Cell<bool> = const { Cell::new(false) };
    static C_COUNT: Cell<u64> = const { Cell::new(0) };
    static C_BYTES: Cell<u64> = const { Cell::new(0) };
    static C_LIVE: Cell<i64> = const { Cell::new(0) };
    static C_BUDGET: Cell<u64> = const { Cell::new(u64::MAX) };
    static C_FLAG: Cell<*const AtomicU32> = const { Cell::new(std::ptr::null()) };
}
/// cumulative bytes one guarded call may allocate (contains memory blow-ups; the parked thread keeps what it holds)
const BYTE_BUDGET: u64 = 3 << 30;

pub struct Counting;
#[inline]
fn untick(size: usize) {
    let _ = C_ARMED.try_with(|a| {
        if a.get() {
            C_LIVE.with(|c| c.set(c.get() - size as i64));
        }
    });
}
#[inline]
fn tick(size: usize) {
    let _ = C_ARMED.try_with(|a| {
        if a.get() {
            let n = C_COUNT.with(|c| {
                let v = c.get() + 1;
                c.set(v);
                v
            });
            // bytes held by this call (allocated minus freed while armed); the maximum is reported as evidence
            let b = C_LIVE.with(|c| {
                let v = c.get() + size as i64;
                c.set(v);
                v.max(0) as u64
            });
            C_BYTES.with(|c| {
                if b > c.get() {
                    c.set(b)
                }
            });
            if n > C_BUDGET.with(|b| b.get()) || b > BYTE_BUDGET {
                a.set(false);
                hang();
            }
        }
    });
}
#[cold]
fn hang() -> ! {
    let p = C_FLAG.with(|f| f.get());
    if !p.is_null() {
        unsafe { (*p).store(1, Ordering::SeqCst) };
    }
    // a thread cannot be killed and an allocator must not unwind: park this thread forever.
    loop {
        unsafe { libc::sleep(3600) };
    }
}
unsafe impl GlobalAlloc for Counting {
    unsafe fn alloc(&self, l: Layout) -> *mut u8 {
        tick(l.size());
        System.alloc(l)
    }
    unsafe fn dealloc(&self, p: *mut u8, l: Layout) {
        untick(l.size());
        System.dealloc(p, l)
    }
    unsafe fn alloc_zeroed(&self, l: Layout) -> *mut u8 {
        tick(l.size());
        System.alloc_zeroed(l)
    }
    unsafe fn realloc(&self, p: *mut u8, l: Layout, n: usize) -> *mut u8 {
        untick(l.size());
        tick(n);
        System.realloc(p, l, n)
    }
}

// ---------------------------------------------------------------- per-run shared state
pub struct Shared {
    pub hang: AtomicU32,
    pub label: Mutex<String>,
}
impl Shared {
    pub fn new() -> Arc<Shared> {
        Arc::new(Shared { hang: AtomicU32::new(0), label: Mutex::new(String::new()) })
    }
}

thread_local! {
    static T_SHARED: RefCell<Option<Arc<Shared>>> = const { RefCell::new(None) };
    static T_PANIC: RefCell<String> = const { RefCell::new(String::new()) };
    pub static T_STEPS: Cell<u64> = const { Cell::new(0) };
    pub static T_MAXSTEPS: Cell<u64> = const { Cell::new(0) };
    pub static T_MAXFRAC_PPM: Cell<u64> = const { Cell::new(0) };
    pub static T_CALLS: Cell<u64> = const { Cell::new(0) };
    pub static T_MAXBYTES: Cell<u64> = const { Cell::new(0) };
}

pub fn attach_shared(s: Arc<Shared>) {
    C_FLAG.with(|f| f.set(&s.hang as *const AtomicU32));
    T_SHARED.with(|t| *t.borrow_mut() = Some(s));
}

/// root of the graphrs tree under test (VERIF_REPO, default /repo) and of the verification directory
pub fn repo_dir() -> String {
    std::env::var("VERIF_REPO").ok().filter(|s| !s.is_empty()).unwrap_or_else(|| "/repo".to_string())
}
pub fn verif_dir() -> String {
    std::env::var("VERIF_DIR").ok().filter(|s| !s.is_empty()).unwrap_or_else(|| "/verif".to_string())
}
/// panic location with the repo prefix removed (stable signatures whatever tree is under test)
pub fn strip_repo(site: &str) -> String {
    site.replace(&format!("{}/", repo_dir()), "")
}

pub fn current_shared() -> Option<Arc<Shared>> {
    T_SHARED.with(|t| t.borrow().clone())
}

/// Run `f` as the first action of a fresh OS thread with the given hash keying (same step-clock flag as
/// the calling run thread, so a hang in it is still contained). Steps are added to the caller's totals.
pub fn fresh_thread<R: Send + 'static>(keying: u64, f: impl FnOnce() -> R + Send + 'static) -> R {
    let sh = current_shared();
    let h = std::thread::Builder::new()
        .stack_size(64 << 20)
        .spawn(move || {
            set_thread_keying(keying);
            if let Some(s) = sh {
                attach_shared(s);
            }
            let r = f();
            (r, T_STEPS.with(|s| s.get()), T_CALLS.with(|s| s.get()), T_MAXSTEPS.with(|s| s.get()), T_MAXFRAC_PPM.with(|s| s.get()))
        })
        .expect("spawn");
    let (r, steps, calls, maxs, frac) = h.join().expect("fresh thread panicked outside a guarded call");
    T_STEPS.with(|s| s.set(s.get() + steps));
    T_CALLS.with(|s| s.set(s.get() + calls));
    T_MAXSTEPS.with(|s| s.set(s.get().max(maxs)));
    T_MAXFRAC_PPM.with(|s| s.set(s.get().max(frac)));
    r
}

pub fn install_panic_hook() {
    std::panic::set_hook(Box::new(|info| {
        let msg = if let Some(s) = info.payload().downcast_ref::<&str>() {
            s.to_string()
        } else if let Some(s) = info.payload().downcast_ref::<String>() {
            s.clone()
        } else {
            "<non-string panic>".to_string()
        };
        let loc = info.location().map(|l| format!("{}:{}", l.file(), l.line())).unwrap_or_default();
        let _ = T_PANIC.try_with(|p| *p.borrow_mut() = format!("{} @ {}", msg, loc));
    }));
}

/// Default step budget for one library call on a graph with n nodes and m edges.
pub fn budget(n: usize, m: usize) -> u64 {
    // >= 100x the largest count observed on the unchanged tree (max_fraction_of_budget_ppm in every evidence file)
    let s = (n + m) as u64;
    400_000_000 + 2_000 * s * s
}

#[derive(Debug, Clone)]
pub struct Panicked(pub String);

/// Run one library call: label it (for hang reports), arm the step clock, convert a panic into a value.
pub fn call<R>(label: &str, budget: u64, f: impl FnOnce() -> R) -> Result<R, Panicked> {
    T_SHARED.with(|t| {
        if let Some(s) = t.borrow().as_ref() {
            let mut l = s.label.lock().unwrap();
            l.clear();
            l.push_str(label);
        }
    });
    C_COUNT.with(|c| c.set(0));
    C_BYTES.with(|c| c.set(0));
    C_LIVE.with(|c| c.set(0));
    C_BUDGET.with(|b| b.set(budget));
    C_ARMED.with(|a| a.set(true));
    let r = std::panic::catch_unwind(std::panic::AssertUnwindSafe(f));
    C_ARMED.with(|a| a.set(false));
    let n = C_COUNT.with(|c| c.get());
    let bytes = C_BYTES.with(|c| c.get());
    T_MAXBYTES.with(|s| {
        if bytes > s.get() {
            s.set(bytes)
        }
    });
    T_STEPS.with(|s| s.set(s.get() + n));
    T_CALLS.with(|s| s.set(s.get() + 1));
    T_MAXSTEPS.with(|s| {
        if n > s.get() {
            s.set(n)
        }
    });
    let ppm = (n as u128 * 1_000_000 / budget.max(1) as u128) as u64;
    T_MAXFRAC_PPM.with(|s| {
        if ppm > s.get() {
            s.set(ppm)
        }
    });
    match r {
        Ok(v) => Ok(v),
        Err(_) => Err(Panicked(T_PANIC.with(|p| p.borrow().clone()))),
    }
}

/// steps (allocations) made by the last `call`
pub fn last_steps() -> u64 {
    C_COUNT.with(|c| c.get())
}
