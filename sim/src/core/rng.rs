//! One integer decides everything: splitmix for derivation, xoshiro256** streams per purpose.
#[derive(Clone, Debug)]
pub struct Rng(pub [u64; 4]);

pub fn splitmix(x: &mut u64) -> u64 {
    *x = x.wrapping_add(0x9E3779B97F4A7C15);
    let mut z = *x;
    z = (z ^ (z >> 30)).wrapping_mul(0xBF58476D1CE4E5B9);
    z = (z ^ (z >> 27)).wrapping_mul(0x94D049BB133111EB);
    z ^ (z >> 31)
}

/// mix two words into one (order matters)
pub fn mix(a: u64, b: u64) -> u64 {
    let mut s = a ^ b.rotate_left(32).wrapping_mul(0xD6E8FEB86659FD93);
    splitmix(&mut s)
}

pub fn hash_str(s: &str) -> u64 {
    let mut h: u64 = 0xcbf29ce484222325;
    for b in s.bytes() {
        h ^= b as u64;
        h = h.wrapping_mul(0x100000001b3);
    }
    h
}

impl Rng {
    pub fn new(seed: u64, label: &str) -> Rng {
        let mut s = mix(seed, hash_str(label));
        Rng([splitmix(&mut s), splitmix(&mut s), splitmix(&mut s), splitmix(&mut s)])
    }
    pub fn next_u64(&mut self) -> u64 {
        let s = &mut self.0;
        let result = s[1].wrapping_mul(5).rotate_left(7).wrapping_mul(9);
        let t = s[1] << 17;
        s[2] ^= s[0];
        s[3] ^= s[1];
        s[1] ^= s[2];
        s[0] ^= s[3];
        s[2] ^= t;
        s[3] = s[3].rotate_left(45);
        result
    }
    /// uniform in 0..n (n >= 1)
    pub fn below(&mut self, n: usize) -> usize {
        if n <= 1 {
            0
        } else {
            (self.next_u64() % n as u64) as usize
        }
    }
    /// uniform in lo..=hi
    pub fn range(&mut self, lo: usize, hi: usize) -> usize {
        lo + self.below(hi - lo + 1)
    }
    pub fn chance(&mut self, num: u32, den: u32) -> bool {
        (self.next_u64() % den as u64) < num as u64
    }
    pub fn unit(&mut self) -> f64 {
        (self.next_u64() >> 11) as f64 / (1u64 << 53) as f64
    }
    pub fn pick<'a, T>(&mut self, v: &'a [T]) -> &'a T {
        &v[self.below(v.len())]
    }
    pub fn shuffle<T>(&mut self, v: &mut [T]) {
        for i in (1..v.len()).rev() {
            let j = self.below(i + 1);
            v.swap(i, j);
        }
    }
    /// index drawn with the given integer weights
    pub fn weighted(&mut self, w: &[u32]) -> usize {
        let tot: u64 = w.iter().map(|x| *x as u64).sum();
        if tot == 0 {
            return 0;
        }
        let mut r = self.next_u64() % tot;
        for (i, x) in w.iter().enumerate() {
            if r < *x as u64 {
                return i;
            }
            r -= *x as u64;
        }
        w.len() - 1
    }
}

/// order-dependent rolling fingerprint
#[derive(Clone, Copy, Debug, Default)]
pub struct Fp(pub u64);
impl Fp {
    pub fn add(&mut self, x: u64) {
        self.0 = mix(self.0 ^ 0x51ed27, x);
    }
    pub fn add_str(&mut self, s: &str) {
        self.add(hash_str(s));
    }
}
