//! A Case is one fully explicit simulated run: specs, history of operations, environments
//! (hash keying, pool size, schedule seed) and property-specific parameters. It is what a
//! replay file contains; nothing in it is "re-drawn from the PRNG" at replay time.
use super::json::J;
use graphrs::{EdgeDedupeStrategy, GraphSpecs, MissingNodeStrategy, SelfLoopsFalseStrategy};

#[derive(Clone, Copy, Debug, PartialEq, Eq, PartialOrd, Ord, Hash)]
pub enum Dedupe {
    Error,
    KeepFirst,
    KeepLast,
}
#[derive(Clone, Copy, Debug, PartialEq, Eq, PartialOrd, Ord, Hash)]
pub enum Missing {
    Create,
    Error,
}
#[derive(Clone, Copy, Debug, PartialEq, Eq, PartialOrd, Ord, Hash)]
pub enum Slf {
    Error,
    Drop,
}

#[derive(Clone, Copy, Debug, PartialEq, Eq, PartialOrd, Ord, Hash)]
pub struct Specs {
    pub directed: bool,
    pub multi: bool,
    pub self_loops: bool,
    pub dedupe: Dedupe,
    pub missing: Missing,
    pub slf: Slf,
}

impl Specs {
    /// 0..96
    pub fn from_index(i: usize) -> Specs {
        let i = i % 96;
        Specs {
            directed: i & 1 == 1,
            multi: (i >> 1) & 1 == 1,
            self_loops: (i >> 2) & 1 == 1,
            missing: if (i >> 3) & 1 == 1 { Missing::Error } else { Missing::Create },
            slf: if (i >> 4) & 1 == 1 { Slf::Drop } else { Slf::Error },
            dedupe: [Dedupe::Error, Dedupe::KeepFirst, Dedupe::KeepLast][i >> 5],
        }
    }
    pub fn index(&self) -> usize {
        (self.directed as usize)
            | (self.multi as usize) << 1
            | (self.self_loops as usize) << 2
            | ((self.missing == Missing::Error) as usize) << 3
            | ((self.slf == Slf::Drop) as usize) << 4
            | (match self.dedupe {
                Dedupe::Error => 0,
                Dedupe::KeepFirst => 1,
                Dedupe::KeepLast => 2,
            }) << 5
    }
    /// the permissive specs used to build graphs for the algorithm properties
    pub fn kind(directed: bool, multi: bool, self_loops: bool) -> Specs {
        Specs { directed, multi, self_loops, dedupe: Dedupe::Error, missing: Missing::Create, slf: Slf::Drop }
    }
    pub fn to_real(&self) -> GraphSpecs {
        GraphSpecs {
            directed: self.directed,
            multi_edges: self.multi,
            self_loops: self.self_loops,
            edge_dedupe_strategy: match self.dedupe {
                Dedupe::Error => EdgeDedupeStrategy::Error,
                Dedupe::KeepFirst => EdgeDedupeStrategy::KeepFirst,
                Dedupe::KeepLast => EdgeDedupeStrategy::KeepLast,
            },
            missing_node_strategy: match self.missing {
                Missing::Create => MissingNodeStrategy::Create,
                Missing::Error => MissingNodeStrategy::Error,
            },
            self_loops_false_strategy: match self.slf {
                Slf::Error => SelfLoopsFalseStrategy::Error,
                Slf::Drop => SelfLoopsFalseStrategy::Drop,
            },
        }
    }
    pub fn from_real(s: &GraphSpecs) -> Specs {
        Specs {
            directed: s.directed,
            multi: s.multi_edges,
            self_loops: s.self_loops,
            dedupe: if s.edge_dedupe_strategy == EdgeDedupeStrategy::Error {
                Dedupe::Error
            } else if s.edge_dedupe_strategy == EdgeDedupeStrategy::KeepFirst {
                Dedupe::KeepFirst
            } else {
                Dedupe::KeepLast
            },
            missing: if s.missing_node_strategy == MissingNodeStrategy::Create { Missing::Create } else { Missing::Error },
            slf: if s.self_loops_false_strategy == SelfLoopsFalseStrategy::Error { Slf::Error } else { Slf::Drop },
        }
    }
    pub fn short(&self) -> String {
        format!(
            "{}{}{} dedupe={:?} missing={:?} slf={:?}",
            if self.directed { "directed" } else { "undirected" },
            if self.multi { "+multi" } else { "" },
            if self.self_loops { "+loops" } else { "" },
            self.dedupe,
            self.missing,
            self.slf
        )
    }
    pub fn to_json(&self) -> J {
        J::obj()
            .set("directed", J::Bool(self.directed))
            .set("multi_edges", J::Bool(self.multi))
            .set("self_loops", J::Bool(self.self_loops))
            .set("dedupe", J::s(&format!("{:?}", self.dedupe)))
            .set("missing", J::s(&format!("{:?}", self.missing)))
            .set("self_loops_false", J::s(&format!("{:?}", self.slf)))
    }
    pub fn from_json(j: &J) -> Result<Specs, String> {
        let b = |k: &str| j.get(k).and_then(|x| x.bool()).ok_or(format!("specs.{} missing", k));
        let s = |k: &str| j.get(k).and_then(|x| x.str()).ok_or(format!("specs.{} missing", k));
        Ok(Specs {
            directed: b("directed")?,
            multi: b("multi_edges")?,
            self_loops: b("self_loops")?,
            dedupe: match s("dedupe")? {
                "Error" => Dedupe::Error,
                "KeepFirst" => Dedupe::KeepFirst,
                "KeepLast" => Dedupe::KeepLast,
                x => return Err(format!("bad dedupe {}", x)),
            },
            missing: match s("missing")? {
                "Create" => Missing::Create,
                "Error" => Missing::Error,
                x => return Err(format!("bad missing {}", x)),
            },
            slf: match s("self_loops_false")? {
                "Error" => Slf::Error,
                "Drop" => Slf::Drop,
                x => return Err(format!("bad slf {}", x)),
            },
        })
    }
}

pub const NAN_BITS: u64 = 0x7ff8000000000000;

/// An edge as given to the library: endpoints, weight (bit pattern; any NaN = unweighted), attribute token.
#[derive(Clone, Debug, PartialEq, Eq, Hash)]
pub struct E {
    pub u: String,
    pub v: String,
    pub w: u64,
    pub attr: Option<u32>,
}
impl E {
    pub fn new(u: &str, v: &str, w: f64) -> E {
        E { u: u.to_string(), v: v.to_string(), w: wbits(w), attr: None }
    }
    pub fn weight(&self) -> f64 {
        f64::from_bits(self.w)
    }
    pub fn to_json(&self) -> J {
        let mut a = vec![J::s(&self.u), J::s(&self.v), wjson(self.w)];
        if let Some(t) = self.attr {
            a.push(J::U(t as u64));
        }
        J::Arr(a)
    }
    pub fn from_json(j: &J) -> Result<E, String> {
        let a = j.arr().ok_or("edge must be an array")?;
        if a.len() < 3 {
            return Err("edge needs [u,v,w]".into());
        }
        Ok(E {
            u: a[0].str().ok_or("edge.u")?.to_string(),
            v: a[1].str().ok_or("edge.v")?.to_string(),
            w: wparse(&a[2])?,
            attr: a.get(3).and_then(|x| x.u64()).map(|x| x as u32),
        })
    }
}

/// canonical weight bits: every NaN becomes the one NaN pattern
pub fn wbits(w: f64) -> u64 {
    if w.is_nan() {
        NAN_BITS
    } else {
        w.to_bits()
    }
}
/// weights are written readably when that is exact, else as hex bits
pub fn wjson(bits: u64) -> J {
    let f = f64::from_bits(bits);
    if f.is_nan() {
        J::s("nan")
    } else if f.is_finite() && format!("{:?}", f).parse::<f64>().map(|g| g.to_bits()) == Ok(bits) && f.abs() < 1e15 && (f == 0.0 || f.abs() > 1e-6) && !(f == 0.0 && f.is_sign_negative()) {
        J::F(f)
    } else {
        J::s(&format!("0x{:016x}", bits))
    }
}
pub fn wparse(j: &J) -> Result<u64, String> {
    match j {
        J::Str(s) if s == "nan" => Ok(NAN_BITS),
        J::Str(s) if s.starts_with("0x") => u64::from_str_radix(&s[2..], 16).map_err(|e| e.to_string()),
        J::Str(s) => s.parse::<f64>().map(wbits).map_err(|e| e.to_string()),
        other => other.f64().map(wbits).ok_or("bad weight".to_string()),
    }
}

pub type NodeSpec = (String, Option<u32>);

#[derive(Clone, Debug, PartialEq)]
pub enum Op {
    AddNode(NodeSpec),
    AddNodes(Vec<NodeSpec>),
    AddEdge(E),
    AddEdgeTuple(String, String),
    AddEdges(Vec<E>),
    AddEdgeTuples(Vec<(String, String)>),
    /// `Graph::new_from_nodes_and_edges`: on Ok the history continues on the new graph, on Err on the old one
    Restart(Specs, Vec<NodeSpec>, Vec<E>),
    Subgraph(Vec<String>),
    Reverse,
    SetWeights(u64),
    ToSingle,
}

fn nodes_json(v: &[NodeSpec]) -> J {
    J::Arr(v.iter().map(|(n, a)| J::Arr(vec![J::s(n), a.map(|x| J::U(x as u64)).unwrap_or(J::Null)])).collect())
}
fn nodes_parse(j: &J) -> Result<Vec<NodeSpec>, String> {
    j.arr()
        .ok_or("nodes must be array")?
        .iter()
        .map(|x| {
            let a = x.arr().ok_or("node must be [name, attr]")?;
            Ok((a.first().and_then(|n| n.str()).ok_or("node name")?.to_string(), a.get(1).and_then(|t| t.u64()).map(|t| t as u32)))
        })
        .collect()
}

impl Op {
    pub fn name(&self) -> &'static str {
        match self {
            Op::AddNode(_) => "add_node",
            Op::AddNodes(_) => "add_nodes",
            Op::AddEdge(_) => "add_edge",
            Op::AddEdgeTuple(..) => "add_edge_tuple",
            Op::AddEdges(_) => "add_edges",
            Op::AddEdgeTuples(_) => "add_edge_tuples",
            Op::Restart(..) => "new_from_nodes_and_edges",
            Op::Subgraph(_) => "get_subgraph",
            Op::Reverse => "reverse",
            Op::SetWeights(_) => "set_all_edge_weights",
            Op::ToSingle => "to_single_edges",
        }
    }
    pub fn is_derived(&self) -> bool {
        matches!(self, Op::Subgraph(_) | Op::Reverse | Op::SetWeights(_) | Op::ToSingle)
    }
    pub fn to_json(&self) -> J {
        let o = J::obj().set("op", J::s(self.name()));
        match self {
            Op::AddNode(n) => o.set("nodes", nodes_json(std::slice::from_ref(n))),
            Op::AddNodes(v) => o.set("nodes", nodes_json(v)),
            Op::AddEdge(e) => o.set("edges", J::Arr(vec![e.to_json()])),
            Op::AddEdgeTuple(u, v) => o.set("pairs", J::Arr(vec![J::Arr(vec![J::s(u), J::s(v)])])),
            Op::AddEdges(v) => o.set("edges", J::Arr(v.iter().map(|e| e.to_json()).collect())),
            Op::AddEdgeTuples(v) => o.set("pairs", J::Arr(v.iter().map(|(a, b)| J::Arr(vec![J::s(a), J::s(b)])).collect())),
            Op::Restart(s, n, e) => o.set("specs", s.to_json()).set("nodes", nodes_json(n)).set("edges", J::Arr(e.iter().map(|e| e.to_json()).collect())),
            Op::Subgraph(s) => o.set("names", J::strs(s)),
            Op::Reverse | Op::ToSingle => o,
            Op::SetWeights(w) => o.set("weight", wjson(*w)),
        }
    }
    pub fn from_json(j: &J) -> Result<Op, String> {
        let name = j.get("op").and_then(|x| x.str()).ok_or("op missing")?;
        let edges = || -> Result<Vec<E>, String> { j.get("edges").and_then(|x| x.arr()).ok_or("edges missing")?.iter().map(E::from_json).collect() };
        let pairs = || -> Result<Vec<(String, String)>, String> {
            j.get("pairs")
                .and_then(|x| x.arr())
                .ok_or("pairs missing")?
                .iter()
                .map(|p| {
                    let a = p.arr().ok_or("pair")?;
                    Ok((a[0].str().ok_or("pair.0")?.to_string(), a[1].str().ok_or("pair.1")?.to_string()))
                })
                .collect()
        };
        let nodes = || nodes_parse(j.get("nodes").ok_or("nodes missing")?);
        Ok(match name {
            "add_node" => Op::AddNode(nodes()?.into_iter().next().ok_or("add_node needs a node")?),
            "add_nodes" => Op::AddNodes(nodes()?),
            "add_edge" => Op::AddEdge(edges()?.into_iter().next().ok_or("add_edge needs an edge")?),
            "add_edge_tuple" => {
                let p = pairs()?.into_iter().next().ok_or("pair")?;
                Op::AddEdgeTuple(p.0, p.1)
            }
            "add_edges" => Op::AddEdges(edges()?),
            "add_edge_tuples" => Op::AddEdgeTuples(pairs()?),
            "new_from_nodes_and_edges" => Op::Restart(Specs::from_json(j.get("specs").ok_or("specs")?)?, nodes()?, edges()?),
            "get_subgraph" => Op::Subgraph(j.get("names").and_then(|x| x.arr()).ok_or("names")?.iter().map(|x| x.str().unwrap_or("").to_string()).collect()),
            "reverse" => Op::Reverse,
            "to_single_edges" => Op::ToSingle,
            "set_all_edge_weights" => Op::SetWeights(wparse(j.get("weight").ok_or("weight")?)?),
            x => return Err(format!("unknown op {}", x)),
        })
    }
}

/// One environment a case is executed under.
#[derive(Clone, Copy, Debug, PartialEq, Eq)]
pub struct Env {
    /// hash-keying seed of the run thread (0 = all-zero SipHash keys)
    pub keying: u64,
    /// size of the (simulated) global rayon pool
    pub pool: usize,
    /// schedule PRNG seed
    pub sched: u64,
}
impl Env {
    pub fn to_json(&self) -> J {
        J::obj().set("keying", J::U(self.keying)).set("pool", J::U(self.pool as u64)).set("sched", J::U(self.sched))
    }
    pub fn from_json(j: &J) -> Result<Env, String> {
        Ok(Env {
            keying: j.get("keying").and_then(|x| x.u64()).ok_or("env.keying")?,
            pool: j.get("pool").and_then(|x| x.u64()).ok_or("env.pool")? as usize,
            sched: j.get("sched").and_then(|x| x.u64()).ok_or("env.sched")?,
        })
    }
}

#[derive(Clone, Debug)]
pub struct Case {
    pub prop: String,
    pub seed: u64,
    pub specs: Specs,
    pub ops: Vec<Op>,
    pub envs: Vec<Env>,
    /// property-specific parameters (JSON object)
    pub params: J,
}

impl Case {
    pub fn new(prop: &str, seed: u64, specs: Specs) -> Case {
        Case { prop: prop.to_string(), seed, specs, ops: vec![], envs: vec![], params: J::obj() }
    }
    pub fn to_json(&self) -> J {
        J::obj()
            .set("property", J::s(&self.prop))
            .set("seed", J::U(self.seed))
            .set("specs", self.specs.to_json())
            .set("ops", J::Arr(self.ops.iter().map(|o| o.to_json()).collect()))
            .set("envs", J::Arr(self.envs.iter().map(|e| e.to_json()).collect()))
            .set("params", self.params.clone())
    }
    pub fn from_json(j: &J) -> Result<Case, String> {
        Ok(Case {
            prop: j.get("property").and_then(|x| x.str()).ok_or("property")?.to_string(),
            seed: j.get("seed").and_then(|x| x.u64()).ok_or("seed")?,
            specs: Specs::from_json(j.get("specs").ok_or("specs")?)?,
            ops: j.get("ops").and_then(|x| x.arr()).ok_or("ops")?.iter().map(Op::from_json).collect::<Result<_, _>>()?,
            envs: j.get("envs").and_then(|x| x.arr()).ok_or("envs")?.iter().map(Env::from_json).collect::<Result<_, _>>()?,
            params: j.get("params").cloned().unwrap_or(J::obj()),
        })
    }
    pub fn p_u64(&self, k: &str) -> Option<u64> {
        self.params.get(k).and_then(|x| x.u64())
    }
    pub fn p_f64(&self, k: &str) -> Option<f64> {
        self.params.get(k).and_then(|x| match x {
            J::Str(_) => wparse(x).ok().map(f64::from_bits),
            _ => x.f64(),
        })
    }
    pub fn p_bool(&self, k: &str) -> Option<bool> {
        self.params.get(k).and_then(|x| x.bool())
    }
    pub fn p_str(&self, k: &str) -> Option<&str> {
        self.params.get(k).and_then(|x| x.str())
    }
    pub fn p_strs(&self, k: &str) -> Option<Vec<String>> {
        self.params.get(k).and_then(|x| x.arr()).map(|a| a.iter().filter_map(|s| s.str().map(|s| s.to_string())).collect())
    }
    /// every node name mentioned anywhere in the history
    pub fn universe(&self) -> Vec<String> {
        let mut v: Vec<String> = vec![];
        let mut add = |s: &String| {
            if !v.contains(s) {
                v.push(s.clone())
            }
        };
        for op in &self.ops {
            match op {
                Op::AddNode(n) => add(&n.0),
                Op::AddNodes(ns) => ns.iter().for_each(|n| add(&n.0)),
                Op::AddEdge(e) => {
                    add(&e.u);
                    add(&e.v)
                }
                Op::AddEdgeTuple(a, b) => {
                    add(a);
                    add(b)
                }
                Op::AddEdges(es) => es.iter().for_each(|e| {
                    add(&e.u);
                    add(&e.v)
                }),
                Op::AddEdgeTuples(ps) => ps.iter().for_each(|(a, b)| {
                    add(a);
                    add(b)
                }),
                Op::Restart(_, ns, es) => {
                    ns.iter().for_each(|n| add(&n.0));
                    es.iter().for_each(|e| {
                        add(&e.u);
                        add(&e.v)
                    })
                }
                Op::Subgraph(s) => s.iter().for_each(&mut add),
                _ => {}
            }
        }
        v
    }
}

#[derive(Clone, Debug)]
pub struct Violation {
    /// stable oracle id, e.g. "C03.traversal_weight"
    pub oracle: String,
    /// structural signature used to match known findings (specific to the failing situation)
    pub sig: String,
    pub detail: String,
}
