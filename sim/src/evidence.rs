//! Evidence file, written from the counters the workers measured on this run.
use crate::core::json::J;
use crate::props::Prop;
use crate::supervisor::{Merged, SupArgs};
use std::collections::BTreeMap;

#[allow(clippy::too_many_arguments)]
pub fn write(a: &SupArgs, prop: &'static dyn Prop, m: &Merged, total: u64, wall: f64, unknown_groups: usize, known: &BTreeMap<String, u64>, replays: &[String]) {
    let mut cov = J::obj();
    cov.put("evaluations", J::U(m.cases));
    cov.put("distinct_nontrivial", J::U(m.nt.len() as u64));
    cov.put("rule", J::s(&prop.rule()));
    let mut samples = m.samples.clone();
    if samples.is_empty() {
        let cseed = crate::props::case_seed(a.seed, prop.id(), 0);
        samples.push(prop.gen(cseed, 0, a.tier).to_json());
    }
    cov.put("samples", J::Arr(samples));
    cov.put("exhaustive", J::Bool(false));
    cov.put("cases_requested", J::U(total));
    cov.put("distinct_run_fingerprints", J::U(m.fps.len() as u64));
    cov.put("distinct_states_reached", J::U(m.states.len() as u64));
    cov.put("runs_per_hour", J::U(if wall > 0.0 { (m.cases as f64 / wall * 3600.0) as u64 } else { 0 }));
    cov.put("worker_processes", J::U(a.workers as u64));
    let mut clock = J::obj();
    clock.put("unit", J::s("heap allocations made inside guarded library calls (the logical step clock; there is no time in graphrs)"));
    clock.put("library_calls", J::U(m.calls));
    clock.put("total_steps", J::U(m.steps));
    clock.put("max_steps_in_one_call", J::U(m.max_steps));
    clock.put("max_fraction_of_budget_ppm", J::U(m.max_frac_ppm));
    cov.put("simulated_time", clock);
    // what fired, by kind
    let mut fired = J::obj();
    for (k, v) in &m.counters {
        fired.put(k, J::U(*v));
    }
    cov.put("fired", fired);
    let mut comp = J::obj();
    comp.put("graphrs", J::s("real code, built from /repo's working tree"));
    comp.put("rayon", J::s(crate::pool::ENGINE));
    comp.put("quick-xml, rand, rand_chacha, sprs, itertools, nohash", J::s("real"));
    comp.put("hash keying (std RandomState)", J::s("real SipHash; keys supplied by the simulator through an interposed getrandom, one fresh OS thread per simulated run"));
    comp.put("file system", J::s("real (private scratch directory), fault-free"));
    cov.put("components", comp);
    if let Some(x) = prop.extra_evidence() {
        cov.put("extra", x);
    }
    // summary written by the real-rayon cross-check that ./check runs first in the thorough tier
    if let Ok(s) = std::fs::read_to_string(format!("{}/target/native-{}.json", a.verif_dir, prop.id())) {
        if let Ok(x) = J::parse(&s) {
            cov.put("real_rayon_cross_check", x);
        }
    }
    cov.put("violating_cases", J::U(m.viol_cases));
    cov.put("stopped_early_after_many_violations", J::Bool(m.stopped_early));
    cov.put("unknown_violation_groups", J::U(unknown_groups as u64));
    cov.put("known_findings_hit", J::Obj(known.iter().map(|(k, v)| (k.clone(), J::U(*v))).collect()));
    cov.put("replay_files", J::Arr(replays.iter().map(|s| J::s(s)).collect()));

    let mut j = J::obj();
    j.put("property_id", J::s(prop.id()));
    j.put("tier", J::s(a.tier.name()));
    j.put("seed", J::U(a.seed));
    j.put("level", J::s(prop.level()));
    j.put("coverage", cov);
    let mut assume = prop.assumptions();
    assume.push("sampled, not exhaustive: a clean batch is evidence, not proof".into());
    assume.push("hash keying is sampled (a few keyings per case), not enumerated".into());
    j.put("assumptions", J::Arr(assume.iter().map(|s| J::s(s)).collect()));
    j.put("wall_s", J::F((wall * 1000.0).round() / 1000.0));
    j.put("violations", J::U(unknown_groups as u64));
    let dir = format!("{}/evidence", a.out_dir);
    let _ = std::fs::create_dir_all(&dir);
    let path = format!("{}/{}.json", dir, prop.id());
    if let Err(e) = std::fs::write(&path, j.pretty()) {
        eprintln!("HARNESS ERROR: cannot write {}: {}", path, e);
    }
}
