//! Executes one Case: every environment on a fresh OS thread (so that its hash keying, step clock and
//! simulated pool are exactly those the case names), then the cross-environment oracle.
use crate::core::case::*;
use crate::core::rng::Fp;
use crate::core::rt;
use crate::props::Prop;
use std::collections::BTreeMap;
use std::sync::atomic::Ordering;
use std::sync::mpsc;
use std::time::{Duration, Instant};

/// Per-environment context handed to a property's `run_env`.
#[derive(Default)]
pub struct Ctx {
    pub counters: BTreeMap<String, u64>,
    pub fp: Fp,
    pub viol: Vec<Violation>,
    /// canonical rendering of what this environment observed, for cross-environment comparison
    pub out: Vec<(String, String)>,
    /// digests of non-trivial situations reached (per the property's rule)
    pub nt: Vec<u64>,
    /// digests of distinct states reached
    pub states: Vec<u64>,
}
impl Ctx {
    pub fn count(&mut self, k: &str) {
        *self.counters.entry(k.to_string()).or_insert(0) += 1;
    }
    pub fn add(&mut self, k: &str, n: u64) {
        *self.counters.entry(k.to_string()).or_insert(0) += n;
    }
    pub fn max(&mut self, k: &str, n: u64) {
        let e = self.counters.entry(k.to_string()).or_insert(0);
        if n > *e {
            *e = n;
        }
    }
    pub fn ev(&mut self, x: u64) {
        self.fp.add(x);
    }
    pub fn ev_str(&mut self, s: &str) {
        self.fp.add_str(s);
    }
    /// record a violation (at most 3 per oracle per run, the first is what gets reported)
    pub fn fail(&mut self, oracle: &str, sig: &str, detail: String) {
        if self.viol.iter().filter(|v| v.oracle == oracle).count() < 3 {
            // details of cases with thousands of edges are cut (the replay file holds the whole case)
            let detail = if detail.len() > 6000 {
                let mut cut = 6000;
                while !detail.is_char_boundary(cut) {
                    cut -= 1;
                }
                format!("{} ... [{} more bytes]", &detail[..cut], detail.len() - cut)
            } else {
                detail
            };
            self.viol.push(Violation { oracle: oracle.to_string(), sig: sig.to_string(), detail });
        }
    }
    pub fn emit(&mut self, key: &str, val: String) {
        self.out.push((key.to_string(), val));
    }
}

pub struct EnvResult {
    pub env: Env,
    pub cx: Ctx,
    pub hung: Option<String>,
    pub steps: u64,
    pub max_steps: u64,
    pub max_frac_ppm: u64,
    pub calls: u64,
    pub sched: crate::pool::PoolStats,
}

pub struct CaseResult {
    pub viol: Vec<Violation>,
    pub fp: u64,
    pub counters: BTreeMap<String, u64>,
    pub nt: Vec<u64>,
    pub states: Vec<u64>,
    pub steps: u64,
    pub max_steps: u64,
    pub max_frac_ppm: u64,
    pub calls: u64,
}

const WALL_BACKSTOP: Duration = Duration::from_secs(300);

/// exit code used when a run neither finishes nor allocates (cannot be contained in-process)
pub const EXIT_WALL_HANG: i32 = 4;
/// exit code of a worker that asks to be restarted (it contained several hangs and holds their memory)
pub const EXIT_RECYCLE: i32 = 5;

pub fn run_case(prop: &'static dyn Prop, case: &Case) -> CaseResult {
    let mut results: Vec<EnvResult> = vec![];
    for env in case.envs.iter().copied() {
        results.push(run_env(prop, case, env));
    }
    let mut cx = Ctx::default();
    if results.iter().all(|r| r.hung.is_none()) {
        prop.cross(case, &results, &mut cx);
    }
    let mut out = CaseResult { viol: vec![], fp: 0, counters: BTreeMap::new(), nt: vec![], states: vec![], steps: 0, max_steps: 0, max_frac_ppm: 0, calls: 0 };
    let mut fp = Fp(0);
    for r in results {
        fp.add(r.cx.fp.0);
        for (k, v) in &r.cx.out {
            fp.add_str(k);
            fp.add_str(v);
        }
        fp.add(r.steps);
        fp.add(r.sched.trace);
        for v in r.cx.viol {
            out.viol.push(v);
        }
        if let Some(label) = r.hung {
            out.viol.push(Violation {
                oracle: format!("{}.hang", prop.id()),
                sig: prop.hang_sig(case, &label),
                detail: format!("call `{}` exceeded its step budget (did not terminate within the allocation budget) under keying={} pool={}", label, r.env.keying, r.env.pool),
            });
            *out.counters.entry("hangs_contained".into()).or_insert(0) += 1;
        }
        for (k, v) in r.cx.counters {
            if k.starts_with("max.") {
                let e = out.counters.entry(k).or_insert(0);
                if v > *e {
                    *e = v
                }
            } else {
                *out.counters.entry(k).or_insert(0) += v;
            }
        }
        out.nt.extend(r.cx.nt);
        out.states.extend(r.cx.states);
        out.steps += r.steps;
        out.calls += r.calls;
        out.max_steps = out.max_steps.max(r.max_steps);
        out.max_frac_ppm = out.max_frac_ppm.max(r.max_frac_ppm);
        let s = r.sched;
        for (k, v) in [("sched.jobs", s.jobs), ("sched.leaves", s.leaves), ("sched.splits", s.splits), ("sched.steals", s.steals), ("sched.joins", s.joins), ("sched.installs", s.installs)] {
            if v > 0 {
                *out.counters.entry(k.into()).or_insert(0) += v;
            }
        }
        if s.jobs > 0 {
            out.states.push(crate::core::rng::mix(0x5c4ed, s.trace));
            *out.counters.entry(format!("pool.size.{}", r.env.pool)).or_insert(0) += 1;
        }
    }
    for v in cx.viol {
        out.viol.push(v);
    }
    for (k, v) in cx.counters {
        *out.counters.entry(k).or_insert(0) += v;
    }
    out.nt.extend(cx.nt);
    out.states.extend(cx.states);
    fp.add(cx.fp.0);
    for v in &out.viol {
        fp.add_str(&v.oracle);
    }
    out.fp = fp.0;
    out
}

fn run_env(prop: &'static dyn Prop, case: &Case, env: Env) -> EnvResult {
    let shared = rt::Shared::new();
    let (tx, rx) = mpsc::channel();
    let case2 = case.clone();
    let sh = shared.clone();
    let builder = std::thread::Builder::new().name(format!("run-{}", case.seed)).stack_size(stack_bytes());
    let handle = builder
        .spawn(move || {
            rt::set_thread_keying(env.keying);
            rt::attach_shared(sh);
            let mut cx = Ctx::default();
            crate::pool::begin(env.sched, env.pool);
            // a panic in the harness itself (not in a guarded library call) is a harness error
            let r = std::panic::catch_unwind(std::panic::AssertUnwindSafe(|| prop.run_env(&case2, &env, &mut cx)));
            let sched = crate::pool::end();
            if r.is_err() {
                cx.fail("HARNESS.panic", "harness", format!("the harness panicked outside a guarded library call: {:?}", rt::call("x", 1 << 40, || ()).err()));
            }
            let steps = rt::T_STEPS.with(|s| s.get());
            let maxs = rt::T_MAXSTEPS.with(|s| s.get());
            let frac = rt::T_MAXFRAC_PPM.with(|s| s.get());
            let calls = rt::T_CALLS.with(|s| s.get());
            cx.max("max.bytes_held_by_one_call", rt::T_MAXBYTES.with(|s| s.get()));
            let _ = tx.send((cx, steps, maxs, frac, calls, sched));
        })
        .expect("spawn run thread");
    let start = Instant::now();
    loop {
        match rx.recv_timeout(Duration::from_millis(10)) {
            Ok((cx, steps, max_steps, max_frac_ppm, calls, sched)) => {
                let _ = handle.join();
                return EnvResult { env, cx, hung: None, steps, max_steps, max_frac_ppm, calls, sched };
            }
            Err(mpsc::RecvTimeoutError::Timeout) => {
                if shared.hang.load(Ordering::SeqCst) != 0 {
                    // the run thread is parked inside the allocator for ever; leave it there
                    let label = shared.label.lock().map(|l| l.clone()).unwrap_or_default();
                    std::mem::forget(handle);
                    return EnvResult { env, cx: Ctx::default(), hung: Some(label), steps: 0, max_steps: 0, max_frac_ppm: 1_000_000, calls: 0, sched: Default::default() };
                }
                if start.elapsed() > WALL_BACKSTOP {
                    let label = shared.label.lock().map(|l| l.clone()).unwrap_or_default();
                    println!("WALLHANG {} {}", case.seed, label);
                    std::process::exit(EXIT_WALL_HANG);
                }
            }
            Err(mpsc::RecvTimeoutError::Disconnected) => {
                // thread died without reporting (should not happen: everything is caught)
                let mut cx = Ctx::default();
                cx.fail("HARNESS.thread", "harness", "run thread ended without a result".into());
                return EnvResult { env, cx, hung: None, steps: 0, max_steps: 0, max_frac_ppm: 0, calls: 0, sched: Default::default() };
            }
        }
    }
}

/// stack of a run thread (VERIF_STACK_MB, default 32)
fn stack_bytes() -> usize {
    static S: std::sync::OnceLock<usize> = std::sync::OnceLock::new();
    *S.get_or_init(|| std::env::var("VERIF_STACK_MB").ok().and_then(|s| s.parse::<usize>().ok()).unwrap_or(32) << 20)
}
