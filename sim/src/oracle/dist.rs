//! Distance oracle: Floyd–Warshall on the min-weight simple (di)graph, shortest-path counts by DP over
//! tight edges, explicit enumeration of all shortest node sequences, and the centralities straight
//! from their definitions. Paths are node sequences: parallel edges do not multiply paths.
use crate::core::real::Snap;

pub const INF: f64 = f64::INFINITY;

pub struct DistOracle {
    pub n: usize,
    pub hop: bool,
    /// min-weight adjacency (self-loops removed)
    pub adj: Vec<Vec<(usize, f64)>>,
    pub d: Vec<Vec<f64>>,
    /// true when every weight is a small dyadic rational, so all path sums and ties are exact in f64
    pub exact: bool,
}

pub fn weights_exact(s: &Snap) -> bool {
    let coarse = s.edges.iter().all(|e| {
        let w = e.2;
        w.is_finite() && w >= 0.0 && w <= 4096.0 && (w * 64.0).fract() == 0.0
    });
    // multiples of 2^-41 whose grand total (each edge counted twice, as in degree sums) stays below 2^11:
    // every partial sum then fits in 52 bits
    let fine = s.edges.iter().all(|e| e.2.is_finite() && e.2 >= 0.0 && (e.2 * (2.0f64).powi(41)).fract() == 0.0) && 2.0 * s.edges.iter().map(|e| e.2).sum::<f64>() <= 2048.0;
    coarse || fine
}

/// single-source distances on a min-weight adjacency (O(n^2) label setting; for graphs too large for the
/// all-pairs table)
pub fn sssp(adj: &[Vec<(usize, f64)>], src: usize) -> Vec<f64> {
    let n = adj.len();
    let mut d = vec![INF; n];
    let mut done = vec![false; n];
    d[src] = 0.0;
    loop {
        let mut u = usize::MAX;
        for i in 0..n {
            if !done[i] && d[i] < INF && (u == usize::MAX || d[i] < d[u]) {
                u = i;
            }
        }
        if u == usize::MAX {
            break;
        }
        done[u] = true;
        for &(v, w) in &adj[u] {
            if v != u && d[u] + w < d[v] {
                d[v] = d[u] + w;
            }
        }
    }
    d
}

/// betweenness for hop counts by Brandes' algorithm (breadth-first search and accumulation per source, O(n m)):
/// for graphs too large for the all-pairs tables. Path counts are f64 (finite up to about 2^1023 paths).
pub fn brandes_hop(s: &Snap, normalized: bool) -> Vec<f64> {
    let n = s.n();
    let adj = s.adj_min(true);
    let mut bc = vec![0.0f64; n];
    for src in 0..n {
        let mut dist = vec![usize::MAX; n];
        let mut sigma = vec![0.0f64; n];
        let mut order: Vec<usize> = Vec::with_capacity(n);
        let mut preds: Vec<Vec<usize>> = vec![vec![]; n];
        dist[src] = 0;
        sigma[src] = 1.0;
        let mut queue = std::collections::VecDeque::new();
        queue.push_back(src);
        while let Some(u) = queue.pop_front() {
            order.push(u);
            for &(v, _) in &adj[u] {
                if v == u {
                    continue;
                }
                if dist[v] == usize::MAX {
                    dist[v] = dist[u] + 1;
                    queue.push_back(v);
                }
                if dist[v] == dist[u] + 1 {
                    sigma[v] += sigma[u];
                    preds[v].push(u);
                }
            }
        }
        let mut delta = vec![0.0f64; n];
        for &w in order.iter().rev() {
            for &u in &preds[w] {
                delta[u] += sigma[u] / sigma[w] * (1.0 + delta[w]);
            }
            if w != src {
                bc[w] += delta[w];
            }
        }
    }
    let scale = if normalized {
        if n > 2 {
            1.0 / ((n as f64 - 1.0) * (n as f64 - 2.0))
        } else {
            1.0
        }
    } else if s.directed {
        1.0
    } else {
        0.5
    };
    bc.iter().map(|x| x * scale).collect()
}

/// single-source distances with a binary heap (non-negative weights): O(m log n), for graphs of tens of thousands of nodes
pub fn sssp_heap(adj: &[Vec<(usize, f64)>], src: usize) -> Vec<f64> {
    use std::cmp::Reverse;
    use std::collections::BinaryHeap;
    let n = adj.len();
    let mut d = vec![INF; n];
    d[src] = 0.0;
    // non-negative finite f64 order like their bit patterns
    let mut h: BinaryHeap<Reverse<(u64, usize)>> = BinaryHeap::new();
    h.push(Reverse((0f64.to_bits(), src)));
    while let Some(Reverse((db, u))) = h.pop() {
        let du = f64::from_bits(db);
        if du > d[u] {
            continue;
        }
        for &(v, w) in &adj[u] {
            if v == u {
                continue;
            }
            let nd = du + w;
            if nd < d[v] {
                d[v] = nd;
                h.push(Reverse((nd.to_bits(), v)));
            }
        }
    }
    d
}

impl DistOracle {
    pub fn new(s: &Snap, hop: bool) -> DistOracle {
        let n = s.n();
        let mut adj = s.adj_min(hop);
        for (u, l) in adj.iter_mut().enumerate() {
            l.retain(|x| x.0 != u);
        }
        let mut d = vec![vec![INF; n]; n];
        for u in 0..n {
            d[u][u] = 0.0;
            for &(v, w) in &adj[u] {
                if w < d[u][v] {
                    d[u][v] = w;
                }
            }
        }
        for k in 0..n {
            for i in 0..n {
                if d[i][k] == INF {
                    continue;
                }
                for j in 0..n {
                    let t = d[i][k] + d[k][j];
                    if t < d[i][j] {
                        d[i][j] = t;
                    }
                }
            }
        }
        DistOracle { n, hop, adj, d, exact: hop || weights_exact(s) }
    }

    /// The floating-point reading of "shortest" for weights whose sums are not exact: d(s,v) is the least
    /// fixpoint of d(s,v) = min over edges (u,v) of fl(d(s,u) + w(u,v)) - what every relaxation-based search
    /// computes, whatever its visiting order - and two paths tie iff their accumulated lengths are equal bit
    /// for bit. (Requires non-negative weights.)
    pub fn new_float(s: &Snap) -> DistOracle {
        let n = s.n();
        let mut adj = s.adj_min(false);
        for (u, l) in adj.iter_mut().enumerate() {
            l.retain(|x| x.0 != u);
        }
        let mut d = vec![vec![INF; n]; n];
        for src in 0..n {
            let row = &mut d[src];
            row[src] = 0.0;
            let mut done = vec![false; n];
            loop {
                let mut u = usize::MAX;
                for i in 0..n {
                    if !done[i] && row[i] < INF && (u == usize::MAX || row[i] < row[u]) {
                        u = i;
                    }
                }
                if u == usize::MAX {
                    break;
                }
                done[u] = true;
                for &(v, w) in &adj[u] {
                    let nd = row[u] + w;
                    if nd < row[v] {
                        row[v] = nd;
                    }
                }
            }
        }
        DistOracle { n, hop: false, adj, d, exact: true }
    }

    /// betweenness by Brandes' accumulation over the tight-edge predecessor relation (equal to the
    /// pair-sum definition; usable when ties are decided on accumulated path lengths)
    pub fn betweenness_brandes(&self, normalized: bool, directed: bool) -> Vec<f64> {
        let n = self.n;
        let mut b = vec![0.0; n];
        for s in 0..n {
            let sig = self.sigma_from(s);
            let mut order: Vec<usize> = (0..n).filter(|t| self.d[s][*t] < INF).collect();
            order.sort_by(|a, b| self.d[s][*a].partial_cmp(&self.d[s][*b]).unwrap().then(a.cmp(b)));
            let mut delta = vec![0.0; n];
            for &w in order.iter().rev() {
                if w == s {
                    continue;
                }
                for u in 0..n {
                    if self.d[s][u] == INF || sig[u] == 0.0 {
                        continue;
                    }
                    if let Some(&(_, wt)) = self.adj[u].iter().find(|x| x.0 == w) {
                        if self.tight(s, u, w, wt) && sig[w] > 0.0 {
                            delta[u] += sig[u] / sig[w] * (1.0 + delta[w]);
                        }
                    }
                }
                b[w] += delta[w];
            }
        }
        let scale = if normalized {
            if n > 2 {
                1.0 / ((n as f64 - 1.0) * (n as f64 - 2.0))
            } else {
                1.0
            }
        } else if directed {
            1.0
        } else {
            0.5
        };
        b.iter().map(|x| x * scale).collect()
    }

    fn tight(&self, s: usize, u: usize, v: usize, w: f64) -> bool {
        let a = self.d[s][u] + w;
        let b = self.d[s][v];
        if self.exact {
            a == b
        } else {
            super::close_rel(a, b)
        }
    }

    /// sigma[t] = number of shortest s-t node sequences (requires strictly positive weights)
    pub fn sigma_from(&self, s: usize) -> Vec<f64> {
        let mut order: Vec<usize> = (0..self.n).filter(|t| self.d[s][*t] < INF).collect();
        order.sort_by(|a, b| self.d[s][*a].partial_cmp(&self.d[s][*b]).unwrap().then(a.cmp(b)));
        let mut sig = vec![0.0; self.n];
        sig[s] = 1.0;
        for &u in &order {
            if sig[u] == 0.0 {
                continue;
            }
            for &(v, w) in &self.adj[u] {
                if v != s && self.d[s][v] < INF && self.tight(s, u, v, w) {
                    sig[v] += sig[u];
                }
            }
        }
        sig
    }

    /// all shortest node sequences s -> t (positive weights); None if more than `cap`
    pub fn all_paths(&self, s: usize, t: usize, cap: usize) -> Option<Vec<Vec<usize>>> {
        if self.d[s][t] == INF {
            return Some(vec![]);
        }
        // predecessor lists over tight edges
        let mut preds: Vec<Vec<usize>> = vec![vec![]; self.n];
        for u in 0..self.n {
            if self.d[s][u] == INF {
                continue;
            }
            for &(v, w) in &self.adj[u] {
                if v != s && self.tight(s, u, v, w) {
                    preds[v].push(u);
                }
            }
        }
        let mut out: Vec<Vec<usize>> = vec![];
        let mut stack: Vec<Vec<usize>> = vec![vec![t]];
        while let Some(p) = stack.pop() {
            let head = *p.last().unwrap();
            if head == s {
                let mut q = p.clone();
                q.reverse();
                out.push(q);
                if out.len() > cap {
                    return None;
                }
                continue;
            }
            if p.len() > self.n {
                continue; // zero-weight cycles: not enumerated
            }
            for &u in &preds[head] {
                if !p.contains(&u) {
                    let mut q = p.clone();
                    q.push(u);
                    stack.push(q);
                }
            }
        }
        out.sort();
        Some(out)
    }

    /// betweenness from the definition: sum over ordered pairs s != v != t of sigma(s,v) sigma(v,t) / sigma(s,t)
    /// for v on a shortest s-t path; then the documented rescaling
    pub fn betweenness(&self, normalized: bool, directed: bool) -> Vec<f64> {
        let n = self.n;
        let sig: Vec<Vec<f64>> = (0..n).map(|s| self.sigma_from(s)).collect();
        let mut b = vec![0.0; n];
        for v in 0..n {
            let mut acc = 0.0;
            for s in 0..n {
                if s == v || self.d[s][v] == INF {
                    continue;
                }
                for t in 0..n {
                    if t == v || t == s || self.d[s][t] == INF || self.d[v][t] == INF {
                        continue;
                    }
                    let through = self.d[s][v] + self.d[v][t];
                    let on = if self.exact { through == self.d[s][t] } else { super::close_rel(through, self.d[s][t]) };
                    if on && sig[s][t] > 0.0 {
                        acc += sig[s][v] * sig[v][t] / sig[s][t];
                    }
                }
            }
            b[v] = acc;
        }
        let scale = if normalized {
            if n > 2 {
                1.0 / ((n as f64 - 1.0) * (n as f64 - 2.0))
            } else {
                1.0
            }
        } else if directed {
            1.0
        } else {
            0.5
        };
        b.iter().map(|x| x * scale).collect()
    }

    /// closeness of u from the incoming distance column: r = #{w : d(w,u) < inf} (u included)
    pub fn closeness(&self, wf_improved: bool) -> Vec<f64> {
        let n = self.n;
        (0..n)
            .map(|u| {
                let mut r = 0usize;
                let mut tot = 0.0;
                for w in 0..n {
                    if self.d[w][u] < INF {
                        r += 1;
                        tot += self.d[w][u];
                    }
                }
                if r <= 1 || n <= 1 || tot <= 0.0 {
                    0.0
                } else {
                    let mut c = (r as f64 - 1.0) / tot;
                    if wf_improved {
                        c *= (r as f64 - 1.0) / (n as f64 - 1.0);
                    }
                    c
                }
            })
            .collect()
    }
}
