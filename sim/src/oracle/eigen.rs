//! Eigenvector-centrality oracle: the documented iteration x -> normalise(x + A^T x), evaluated with a fixed
//! summation order.
use crate::core::real::Snap;

pub struct Eigen {
    pub n: usize,
    /// at[v] = list of (u, w): contributions x[u]*w arriving at v (edge u->v; both ways when undirected; a self-loop once)
    pub at: Vec<Vec<(usize, f64)>>,
    pub frob: f64,
}

impl Eigen {
    pub fn new(s: &Snap, weighted: bool) -> Eigen {
        let n = s.n();
        let mut at: Vec<Vec<(usize, f64)>> = vec![vec![]; n];
        let mut fro = 0.0;
        for &(u, v, w) in &s.edges {
            let w = if !weighted || w.is_nan() { 1.0 } else { w };
            at[v].push((u, w));
            fro += w * w;
            if !s.directed && u != v {
                at[u].push((v, w));
                fro += w * w;
            }
        }
        for l in at.iter_mut() {
            l.sort_by(|a, b| a.0.cmp(&b.0));
        }
        Eigen { n, at, frob: fro.sqrt() }
    }
    /// one step: y = (x + A^T x) / ||x + A^T x||_2
    pub fn step(&self, x: &[f64]) -> Vec<f64> {
        let mut y: Vec<f64> = x.to_vec();
        for v in 0..self.n {
            for &(u, w) in &self.at[v] {
                y[v] += x[u] * w;
            }
        }
        let norm = y.iter().map(|a| a * a).sum::<f64>().sqrt();
        let norm = if norm == 0.0 { 1.0 } else { norm };
        y.iter().map(|a| a / norm).collect()
    }
    /// the vector after `k` steps from the uniform start
    pub fn iterate(&self, k: usize) -> Vec<f64> {
        let mut x = vec![1.0 / self.n.max(1) as f64; self.n];
        for _ in 0..k {
            x = self.step(&x);
        }
        x
    }
    /// reference iteration from the uniform start; returns for every iteration the L1 change
    pub fn changes(&self, max_iter: usize) -> Vec<f64> {
        let mut x = vec![1.0 / self.n.max(1) as f64; self.n];
        let mut out = vec![];
        for _ in 0..max_iter {
            let y = self.step(&x);
            let d: f64 = y.iter().zip(x.iter()).map(|(a, b)| (a - b).abs()).sum();
            out.push(d);
            x = y;
            if d == 0.0 {
                break;
            }
        }
        out
    }
}
