//! Reference oracles: independent re-derivations of the cited definitions, ordered containers only.
pub mod dist;
pub mod reach;
pub mod cluster;
pub mod modularity;
pub mod eigen;

/// quotients and sums of quotients: |a-b| <= 1e-9 * max(1,|a|,|b|); NaN equals NaN; inf equals inf
pub fn close(a: f64, b: f64) -> bool {
    if a.is_nan() || b.is_nan() {
        return a.is_nan() && b.is_nan();
    }
    if a == b {
        return true;
    }
    (a - b).abs() <= 1e-9 * 1f64.max(a.abs()).max(b.abs())
}
