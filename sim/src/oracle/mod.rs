//! Reference oracles: independent re-derivations of the cited definitions, ordered containers only.
pub mod dist;
pub mod reach;
pub mod cluster;
pub mod modularity;
pub mod eigen;

/// quotients and sums of quotients: |a-b| <= 1e-9 * max(1,|a|,|b|); NaN equals NaN; inf equals inf
pub fn close(a: f64, b: f64) -> bool {
    if a.is_nan() || b.is_nan() {
        return a.is_nan() && b.is_nan();
    }
    if a == b {
        return true;
    }
    if a.is_infinite() || b.is_infinite() {
        return false; // an infinite value is close only to itself (inf <= 1e-9 * inf would accept anything)
    }
    (a - b).abs() <= 1e-9 * 1f64.max(a.abs()).max(b.abs())
}

/// purely relative comparison for quantities that scale with the weights (distances, path weights,
/// closeness): |a-b| <= 1e-9 * max(|a|,|b|). `close` would hide every error on graphs with tiny weights.
pub fn close_rel(a: f64, b: f64) -> bool {
    if a.is_nan() || b.is_nan() {
        return a.is_nan() && b.is_nan();
    }
    if a == b {
        return true;
    }
    if a.is_infinite() || b.is_infinite() {
        return false;
    }
    (a - b).abs() <= 1e-9 * a.abs().max(b.abs())
}
