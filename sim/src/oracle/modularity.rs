//! Newman modularity with the conventions C12 spells out, and the set-partition test.
use crate::core::real::Snap;
use std::collections::BTreeSet;

/// communities as sets of node positions
pub fn modularity(s: &Snap, comms: &[BTreeSet<usize>], weighted: bool, resolution: f64) -> f64 {
    let n = s.n();
    let mut com_of = vec![usize::MAX; n];
    for (i, c) in comms.iter().enumerate() {
        for &v in c {
            com_of[v] = i;
        }
    }
    let k = comms.len();
    let mut l = vec![0.0; k]; // intra-community edge count / weight: every stored edge once
    let mut out = vec![0.0; k];
    let mut inn = vec![0.0; k];
    let mut m = 0.0;
    for &(u, v, w) in &s.edges {
        let w = if weighted { w } else { 1.0 };
        m += w;
        out[com_of[u]] += w;
        inn[com_of[v]] += w;
        if com_of[u] == com_of[v] {
            l[com_of[u]] += w;
        }
    }
    let mut q = 0.0;
    for c in 0..k {
        if s.directed {
            q += l[c] / m - resolution * out[c] * inn[c] / (m * m);
        } else {
            // degree: both ends of every edge; an undirected self-loop counts twice
            let deg = out[c] + inn[c];
            q += l[c] / m - resolution * (deg / (2.0 * m)) * (deg / (2.0 * m));
        }
    }
    q
}

/// pairwise disjoint, only nodes of the graph, covering every node
pub fn is_partition(node_names: &[String], comms: &[Vec<String>]) -> bool {
    let mut seen: BTreeSet<&String> = BTreeSet::new();
    for c in comms {
        let uniq: BTreeSet<&String> = c.iter().collect();
        for x in uniq {
            if !node_names.contains(x) {
                return false;
            }
            if !seen.insert(x) {
                return false;
            }
        }
    }
    seen.len() == node_names.len()
}
