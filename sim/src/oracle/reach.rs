//! Reachability oracle: boolean Warshall closure -> weak / strong / undirected component classes.
use crate::core::real::Snap;
use std::collections::BTreeSet;

pub struct Reach {
    pub n: usize,
    /// r[a][b]: b reachable from a along successors (neighbours when undirected), a itself included
    pub r: Vec<Vec<bool>>,
    /// reachability ignoring direction
    pub w: Vec<Vec<bool>>,
}

fn closure(n: usize, mut m: Vec<Vec<bool>>) -> Vec<Vec<bool>> {
    for i in 0..n {
        m[i][i] = true;
    }
    for k in 0..n {
        for i in 0..n {
            if m[i][k] {
                for j in 0..n {
                    if m[k][j] {
                        m[i][j] = true;
                    }
                }
            }
        }
    }
    m
}

/// closure by a search from every node: O(n (n + m)), for graphs too large for the cubic closure
fn closure_by_search(n: usize, adj: &[Vec<usize>]) -> Vec<Vec<bool>> {
    let mut out = vec![vec![false; n]; n];
    for a in 0..n {
        let row = &mut out[a];
        row[a] = true;
        let mut stack = vec![a];
        while let Some(x) = stack.pop() {
            for &y in &adj[x] {
                if !row[y] {
                    row[y] = true;
                    stack.push(y);
                }
            }
        }
    }
    out
}

impl Reach {
    pub fn new(s: &Snap) -> Reach {
        let n = s.n();
        if n > 600 {
            let mut a: Vec<Vec<usize>> = vec![vec![]; n];
            let mut u: Vec<Vec<usize>> = vec![vec![]; n];
            for &(x, y, _) in &s.edges {
                a[x].push(y);
                if !s.directed {
                    a[y].push(x);
                }
                u[x].push(y);
                u[y].push(x);
            }
            return Reach { n, r: closure_by_search(n, &a), w: closure_by_search(n, &u) };
        }
        let mut a = vec![vec![false; n]; n];
        let mut u = vec![vec![false; n]; n];
        for &(x, y, _) in &s.edges {
            a[x][y] = true;
            if !s.directed {
                a[y][x] = true;
            }
            u[x][y] = true;
            u[y][x] = true;
        }
        Reach { n, r: closure(n, a), w: closure(n, u) }
    }
    fn classes(&self, same: impl Fn(usize, usize) -> bool) -> BTreeSet<BTreeSet<usize>> {
        let mut out = BTreeSet::new();
        let mut assigned = vec![false; self.n];
        for a in 0..self.n {
            if assigned[a] {
                continue;
            }
            let class: BTreeSet<usize> = (0..self.n).filter(|b| same(a, *b)).collect();
            if class.iter().any(|b| assigned[*b]) {
                // `same` is not an equivalence here (cannot happen for the closures above): fall back to per-node classes
                let mut all = BTreeSet::new();
                for x in 0..self.n {
                    all.insert((0..self.n).filter(|b| same(x, *b)).collect::<BTreeSet<usize>>());
                }
                return all;
            }
            for &b in &class {
                assigned[b] = true;
            }
            out.insert(class);
        }
        out
    }
    pub fn strong(&self) -> BTreeSet<BTreeSet<usize>> {
        self.classes(|a, b| self.r[a][b] && self.r[b][a])
    }
    pub fn weak(&self) -> BTreeSet<BTreeSet<usize>> {
        self.classes(|a, b| self.w[a][b])
    }
    pub fn reachable(&self, a: usize) -> BTreeSet<usize> {
        (0..self.n).filter(|b| self.r[a][*b]).collect()
    }
}
