//! Reachability oracle: boolean Warshall closure -> weak / strong / undirected component classes.
use crate::core::real::Snap;
use std::collections::BTreeSet;

pub struct Reach {
    pub n: usize,
    /// r[a][b]: b reachable from a along successors (neighbours when undirected), a itself included
    pub r: Vec<Vec<bool>>,
    /// reachability ignoring direction
    pub w: Vec<Vec<bool>>,
}

fn closure(n: usize, mut m: Vec<Vec<bool>>) -> Vec<Vec<bool>> {
    for i in 0..n {
        m[i][i] = true;
    }
    for k in 0..n {
        for i in 0..n {
            if m[i][k] {
                for j in 0..n {
                    if m[k][j] {
                        m[i][j] = true;
                    }
                }
            }
        }
    }
    m
}

impl Reach {
    pub fn new(s: &Snap) -> Reach {
        let n = s.n();
        let mut a = vec![vec![false; n]; n];
        let mut u = vec![vec![false; n]; n];
        for &(x, y, _) in &s.edges {
            a[x][y] = true;
            if !s.directed {
                a[y][x] = true;
            }
            u[x][y] = true;
            u[y][x] = true;
        }
        Reach { n, r: closure(n, a), w: closure(n, u) }
    }
    fn classes(&self, same: impl Fn(usize, usize) -> bool) -> BTreeSet<BTreeSet<usize>> {
        let mut out = BTreeSet::new();
        for a in 0..self.n {
            out.insert((0..self.n).filter(|b| same(a, *b)).collect::<BTreeSet<usize>>());
        }
        out
    }
    pub fn strong(&self) -> BTreeSet<BTreeSet<usize>> {
        self.classes(|a, b| self.r[a][b] && self.r[b][a])
    }
    pub fn weak(&self) -> BTreeSet<BTreeSet<usize>> {
        self.classes(|a, b| self.w[a][b])
    }
    pub fn reachable(&self, a: usize) -> BTreeSet<usize> {
        (0..self.n).filter(|b| self.r[a][*b]).collect()
    }
}
