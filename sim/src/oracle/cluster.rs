//! Clustering family straight from the definitions (self-loops removed): undirected, Fagiolo directed,
//! Onnela weighted (geometric mean, max-weight normalisation), triangles, transitivity, generalised
//! degree, Lind square clustering. Single-edge graphs only.
use crate::core::real::Snap;
use std::collections::BTreeMap;

pub struct ClusterOracle {
    pub n: usize,
    pub directed: bool,
    /// a[u][v] = Some(weight) iff an edge u->v is stored (symmetric when undirected); no self-loops
    pub a: Vec<Vec<Option<f64>>>,
    /// largest weight over non-loop edges / over all edges
    pub wmax_noloop: f64,
    pub wmax_all: f64,
}

impl ClusterOracle {
    pub fn new(s: &Snap) -> ClusterOracle {
        let n = s.n();
        let mut a = vec![vec![None; n]; n];
        let mut m1 = f64::NEG_INFINITY;
        let mut m2 = f64::NEG_INFINITY;
        for &(u, v, w) in &s.edges {
            if w > m2 {
                m2 = w;
            }
            if u == v {
                continue;
            }
            if w > m1 {
                m1 = w;
            }
            a[u][v] = Some(w);
            if !s.directed {
                a[v][u] = Some(w);
            }
        }
        ClusterOracle { n, directed: s.directed, a, wmax_noloop: m1, wmax_all: m2 }
    }
    fn adj(&self, u: usize, v: usize) -> bool {
        self.a[u][v].is_some()
    }
    /// neighbours in the underlying sense: successors or predecessors
    pub fn nbrs(&self, v: usize) -> Vec<usize> {
        (0..self.n).filter(|u| *u != v && (self.adj(v, *u) || self.adj(*u, v))).collect()
    }
    pub fn triangles(&self, v: usize) -> usize {
        let nb = self.nbrs(v);
        let mut t = 0;
        for (i, &x) in nb.iter().enumerate() {
            for &y in &nb[i + 1..] {
                if self.adj(x, y) {
                    t += 1;
                }
            }
        }
        t
    }
    pub fn clustering_undirected(&self, v: usize) -> f64 {
        let k = self.nbrs(v).len() as f64;
        let t = self.triangles(v) as f64;
        if t == 0.0 {
            0.0
        } else {
            2.0 * t / (k * (k - 1.0))
        }
    }
    /// (B^3)_vv for B = M + M^T, M given entrywise
    fn b3(&self, v: usize, m: &dyn Fn(usize, usize) -> f64) -> f64 {
        let b = |x: usize, y: usize| m(x, y) + m(y, x);
        let mut t = 0.0;
        for j in 0..self.n {
            if j == v {
                continue;
            }
            let bvj = b(v, j);
            if bvj == 0.0 {
                continue;
            }
            for k in 0..self.n {
                if k == v || k == j {
                    continue;
                }
                t += bvj * b(j, k) * b(k, v);
            }
        }
        t
    }
    fn fagiolo_denominator(&self, v: usize) -> f64 {
        let mut dtot = 0.0;
        let mut drec = 0.0;
        for u in 0..self.n {
            if u == v {
                continue;
            }
            let o = self.adj(v, u);
            let i = self.adj(u, v);
            dtot += o as u8 as f64 + i as u8 as f64;
            if o && i {
                drec += 1.0;
            }
        }
        2.0 * (dtot * (dtot - 1.0) - 2.0 * drec)
    }
    pub fn clustering_directed(&self, v: usize) -> f64 {
        let t = self.b3(v, &|x, y| if self.adj(x, y) { 1.0 } else { 0.0 });
        if t == 0.0 {
            0.0
        } else {
            t / self.fagiolo_denominator(v)
        }
    }
    pub fn clustering_undirected_weighted(&self, v: usize, wmax: f64) -> f64 {
        let nb = self.nbrs(v);
        let k = nb.len() as f64;
        let m = |x: usize, y: usize| self.a[x][y].unwrap() / wmax;
        let mut s = 0.0;
        for (i, &x) in nb.iter().enumerate() {
            for &y in &nb[i + 1..] {
                if self.adj(x, y) {
                    s += (m(v, x) * m(x, y) * m(y, v)).cbrt();
                }
            }
        }
        if s == 0.0 {
            0.0
        } else {
            2.0 * s / (k * (k - 1.0))
        }
    }
    pub fn clustering_directed_weighted(&self, v: usize, wmax: f64) -> f64 {
        let t = self.b3(v, &|x, y| match self.a[x][y] {
            Some(w) => (w / wmax).cbrt(),
            None => 0.0,
        });
        if t == 0.0 {
            0.0
        } else {
            t / self.fagiolo_denominator(v)
        }
    }
    pub fn transitivity(&self) -> f64 {
        let mut t = 0.0;
        let mut c = 0.0;
        for v in 0..self.n {
            let k = self.nbrs(v).len() as f64;
            t += 2.0 * self.triangles(v) as f64;
            c += k * (k - 1.0);
        }
        if t == 0.0 {
            0.0
        } else {
            t / c
        }
    }
    /// histogram over neighbours w of |N(v) ∩ N(w)| (the number of triangles on the edge v-w)
    pub fn generalized_degree(&self, v: usize) -> BTreeMap<usize, usize> {
        let nb = self.nbrs(v);
        let mut h = BTreeMap::new();
        for &w in &nb {
            let c = self.nbrs(w).iter().filter(|x| nb.contains(x)).count();
            *h.entry(c).or_insert(0) += 1;
        }
        h
    }
    /// Lind et al. square clustering
    pub fn square(&self, v: usize) -> f64 {
        let nb = self.nbrs(v);
        let mut num = 0.0;
        let mut den = 0.0;
        for (i, &u) in nb.iter().enumerate() {
            for &w in &nb[i + 1..] {
                let nu = self.nbrs(u);
                let nw = self.nbrs(w);
                let q = nu.iter().filter(|x| **x != v && nw.contains(x)).count() as f64;
                let theta = if self.adj(u, w) { 1.0 } else { 0.0 };
                let a = (nu.len() as f64 - (1.0 + q + theta)) + (nw.len() as f64 - (1.0 + q + theta));
                num += q;
                den += a + q;
            }
        }
        if den > 0.0 {
            num / den
        } else {
            0.0
        }
    }
}
