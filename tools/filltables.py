#!/usr/bin/env python3
"""Replaces the seeded-change tables of DESIGN.md §0.4 (between the markers) with the current metadata."""
import subprocess, re, os
root = os.path.join(os.path.dirname(os.path.abspath(__file__)), '..')
p = os.path.join(root, 'DESIGN.md')
s = open(p).read()
for r, title in [('r1', 'First round'), ('r2', 'Second round'), ('r3', 'Third round'), ('r4', 'Fourth round'), ('r5', 'Fifth round'), ('r6', 'Sixth round')]:
    t = subprocess.run(['python3', os.path.join(root, 'tools', 'seedtable.py'), r], capture_output=True, text=True).stdout
    block = '<!-- table %s begin -->\n*%s*\n\n%s<!-- table %s end -->' % (r, title, t, r)
    marker = '@@TABLE_%s@@' % r.upper()
    if marker in s:
        s = s.replace(marker, block)
    else:
        s = re.sub(r'<!-- table %s begin -->.*?<!-- table %s end -->' % (r, r), lambda m: block, s, flags=re.S)
open(p, 'w').write(s)
