#!/usr/bin/env bash
# tools/seedverify.sh <dir with patch.diff and demo.rs>
# Confirms a candidate seeded change in a scratch worktree (outside /repo and /verif):
#   it applies, compiles, the existing test suite passes exactly as on the unchanged tree,
#   the demonstration fails with the change and passes without it.
set -u
D=$(readlink -f "$1"); WT=/tmp/wt/verify-$$
git -C /repo worktree add -q "$WT" HEAD || exit 2
trap 'git -C /repo worktree remove --force "$WT" >/dev/null 2>&1; rm -rf "$WT"' EXIT
cd "$WT" || exit 2
export CARGO_TARGET_DIR=/tmp/wt/verify-target
suite() { cargo test --offline --lib --tests --no-fail-fast 2>&1 | grep -E "^test .* \.\.\. " | sort > "$1"; }
cp "$D/demo.rs" tests/zz_demo_seeded.rs
demo() { cargo test --offline --test zz_demo_seeded 2>&1 | grep -E "^test result" | tail -1; }
echo "== demo on the unchanged tree"; r0=$(demo); echo "   $r0"
rm tests/zz_demo_seeded.rs
suite /tmp/wt/suite-base-$$.txt
if ! git apply "$D/patch.diff"; then echo "RESULT: patch does not apply"; exit 1; fi
if ! cargo build --offline >/dev/null 2>&1; then echo "RESULT: does not compile"; exit 1; fi
suite /tmp/wt/suite-mut-$$.txt
if diff -q /tmp/wt/suite-base-$$.txt /tmp/wt/suite-mut-$$.txt >/dev/null; then echo "== existing test suite: identical results with the change ($(grep -c ' ok$' /tmp/wt/suite-mut-$$.txt) ok)"; suite_ok=1; else echo "== existing test suite CHANGES:"; diff /tmp/wt/suite-base-$$.txt /tmp/wt/suite-mut-$$.txt | head; suite_ok=0; fi
cp "$D/demo.rs" tests/zz_demo_seeded.rs
echo "== demo with the change"; r1=$(demo); echo "   $r1"
rm -f /tmp/wt/suite-base-$$.txt /tmp/wt/suite-mut-$$.txt
case "$r0" in *"test result: ok"*) p0=1;; *) p0=0;; esac
case "$r1" in *"FAILED"*) f1=1;; *) f1=0;; esac
if [ $suite_ok = 1 ] && [ $p0 = 1 ] && [ $f1 = 1 ]; then echo "RESULT: confirmed"; exit 0; else echo "RESULT: NOT confirmed (suite_ok=$suite_ok demo_passes_without=$p0 demo_fails_with=$f1)"; exit 1; fi
