#!/usr/bin/env bash
# run every claimed check (quick or thorough) and summarise; validates the evidence files
cd "$(dirname "$0")/.." || exit 2
TIER="${1:-quick}"
for p in $(python3 -c "import json;print(' '.join(c['property_id'] for c in json.load(open('MANIFEST.json'))['checks']))"); do
  t0=$(date +%s)
  out=$(./check "$p" "$TIER" 2>&1); rc=$?
  t1=$(date +%s)
  echo "$p rc=$rc $((t1-t0))s $(echo "$out" | grep -E '^graphsim: [0-9]' | tail -1)"
  echo "$out" | grep -E "^(VIOLATION|KNOWN-FINDING|HARNESS)" | cut -c1-200
done
python3-vt - <<'PY'
import json,jsonschema,glob
sch=json.load(open('/root/.vp/EVIDENCE.schema.json'))
for f in sorted(glob.glob('evidence/*.json')):
    try:
        jsonschema.validate(json.load(open(f)),sch)
    except Exception as e:
        print('INVALID',f,str(e)[:200])
print('evidence validated')
PY
