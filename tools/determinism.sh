#!/usr/bin/env bash
# Determinism proof: the run fingerprint (every op outcome, state digest, algorithm output bit pattern,
# allocation count, schedule trace) of each case must be identical across separate processes and worker counts.
# usage: tools/determinism.sh [runs-per-property] [properties...]     exit 0 = identical, 2 = differs (harness error)
set -u
V="$(cd "$(dirname "$0")/.." && pwd)"; cd "$V" || exit 2
N="${1:-2000}"; shift || true
PROPS="${*:-C01 C02 C03 C04 C05 C06 C07 C08 C09 C10 C11 C12 C13 C14 C15 C17 C18 C19 C20}"
BIN="$V/target/sched-hook/release/graphsim"
[ -x "$BIN" ] || ./check --build || exit 2
bad=0
for p in $PROPS; do
  n=$N
  case $p in C07) n=$(( N / 20 + 20 ));; C17|C13) n=$(( N / 4 + 20 ));; C04|C08|C10) n=$(( N / 2 ));; esac
  a=$(mktemp); b=$(mktemp); c=$(mktemp)
  "$BIN" fingerprints --prop "$p" --runs "$n" --workers 16 >"$a" 2>/dev/null
  "$BIN" fingerprints --prop "$p" --runs "$n" --workers 5  >"$b" 2>/dev/null
  "$BIN" fingerprints --prop "$p" --runs "$n" --workers 1  >"$c" 2>/dev/null
  la=$(wc -l <"$a")
  if [ "$la" -ne "$n" ]; then echo "determinism: $p produced $la fingerprints for $n cases"; bad=1; fi
  if cmp -s "$a" "$b" && cmp -s "$a" "$c"; then
    echo "determinism: $p $n cases x 3 process layouts (16 / 5 / 1 workers): identical fingerprints"
  else
    echo "determinism: $p DIFFERS:"; diff "$a" "$b" | head -5; diff "$a" "$c" | head -5; bad=1
  fi
  rm -f "$a" "$b" "$c"
done
# rare cases (strategy thresholds: thousands of edges) lie beyond the first N indices: replay three of them per
# property twice, in separate processes, and compare the fingerprints
tmp=$(mktemp -d)
for p in $PROPS; do
  case $p in C19|C20) continue;; esac
  k=0
  for i in $("$BIN" find --prop "$p" --source thousands 2>/dev/null | awk '{print $1}' | head -3); do
    "$BIN" gen --prop "$p" --idx "$i" >"$tmp/case.json" 2>/dev/null
    f1=$("$BIN" replay "$tmp/case.json" 2>/dev/null | grep -o "fingerprint=[0-9a-f]*" | head -1)
    f2=$("$BIN" replay "$tmp/case.json" 2>/dev/null | grep -o "fingerprint=[0-9a-f]*" | head -1)
    if [ -z "$f1" ] || [ "$f1" != "$f2" ]; then echo "determinism: $p case $i (thousands of edges) DIFFERS: $f1 vs $f2"; bad=1; fi
    k=$((k+1))
  done
  echo "determinism: $p $k cases with thousands of edges replayed twice in separate processes: identical fingerprints"
done
rm -rf "$tmp"
[ $bad -eq 0 ] && exit 0 || exit 2
