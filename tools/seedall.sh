#!/usr/bin/env bash
# tools/seedall.sh <PROP> <mutation-dir> [extra props...] : verify, run the checks, and store the result under /verif/seeded/
set -u
P=$1; D=$(readlink -f "$2"); shift 2
name=$(echo "$D" | sed 's#/tmp/wt2/\(C[0-9]*\)/mutations/#\1-r2-#; s#/tmp/wt4/\(C[0-9]*\)/mutations/#\1-r3-#; s#/tmp/wt6/\(C[0-9]*\)/mutations/#\1-r4-#; s#/tmp/wt/##; s#/mutations/#-#; s#/#-#g')
out=/verif/seeded/$name
mkdir -p "$out"
T=$(dirname "$(readlink -f "$0")")
v=$("$T"/seedverify.sh "$D" 2>&1 | grep -v WARNING)
echo "$v" | tail -6
if ! echo "$v" | grep -q "RESULT: confirmed"; then echo ">>> $name NOT CONFIRMED"; rm -rf "$out"; exit 1; fi
r=$("$T"/seedrun.sh "$D/patch.diff" $P "$@" 2>&1 | grep -v WARNING)
echo "$r"
cp "$D/patch.diff" "$out/patch.diff"; cp "$D/demo.rs" "$out/demo.rs"; cp "$D/notes.md" "$out/notes.md" 2>/dev/null
caught=$(echo "$r" | grep -E "^\[C[0-9]+\] rc=1" | sed 's/\] .*//; s/\[//' | tr '\n' ' ')
SEED_OUT="$r" SEED_AT="verif $(git -C /verif rev-parse --short HEAD) / repo $(git -C /repo rev-parse --short HEAD)" python3 - "$out" "$P" "$caught" "$@" <<PY
import json,sys,os
out,prop,caught=sys.argv[1],sys.argv[2],sys.argv[3].split()
notes=open(out+'/notes.md').read() if __import__('os').path.exists(out+'/notes.md') else ''
meta={"breaks_property":prop,"source":"independent sub-agent given only the property text and a scratch worktree","needs_to_manifest":notes[:1200],
 "confirmed":"tools/seedverify.sh: applies at /repo HEAD, compiles, existing test suite results identical, demo fails with the change and passes without",
 "checks_run":"tools/seedrun.sh (quick tier, default VERIF_SEED): "+" ".join([prop]+sys.argv[4:]),
 "caught_by":caught,"check_output":os.environ.get("SEED_OUT",""),"evaluated_at":os.environ.get("SEED_AT","")}
json.dump(meta,open(out+'/meta.json','w'),indent=1)
PY
echo ">>> $name caught_by: ${caught:-NONE}"
