#!/usr/bin/env python3
"""Prints the markdown table of seeded changes (DESIGN.md §0.4) from /verif/seeded/*/meta.json."""
import json, glob, os, re, sys
rows = []
for d in sorted(glob.glob(os.path.join(os.path.dirname(__file__), '..', 'seeded', '*'))):
    try:
        m = json.load(open(os.path.join(d, 'meta.json')))
    except Exception:
        continue
    name = os.path.basename(d)
    notes = ''
    p = os.path.join(d, 'notes.md')
    if os.path.exists(p):
        for l in open(p):
            l = l.strip().lstrip('#').strip()
            if l:
                notes = l
                break
    c = m.get('caught_by') or []
    c = c.split() if isinstance(c, str) else c
    t = m.get('caught_by_thorough') or []
    rnd = 'r6' if '-r6-' in name else 'r5' if '-r5-' in name else 'r4' if '-r4-' in name else 'r3' if '-r3-' in name else 'r2' if '-r2-' in name else 'r1'
    rows.append((rnd, name, m['breaks_property'], ' '.join(c) or '-', ' '.join(t), notes.replace('|', '/')[:150]))
want = sys.argv[1] if len(sys.argv) > 1 else None
print('| seeded change | breaks | caught by (quick tier) | thorough tier only | what it is |')
print('|---|---|---|---|---|')
for r in rows:
    if want and r[0] != want:
        continue
    print('| %s | %s | %s | %s | %s |' % r[1:])
