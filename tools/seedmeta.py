#!/usr/bin/env python3
"""tools/seedmeta.py <round tag, e.g. r6> <seedrun log> <seedverify log> : writes seeded/<ID>-<tag>-m1/meta.json from
the logs of tools/seedrun.sh / tools/seedverify.sh (blocks introduced by '### <ID>')."""
import json, sys, subprocess, os
tag, runlog, verlog = sys.argv[1:4]
root = os.path.join(os.path.dirname(os.path.abspath(__file__)), '..')
def blocks(path):
    out = {}
    for b in open(path).read().split('### ')[1:]:
        head, _, body = b.partition('\n')
        out[head.strip()] = body.strip()
    return out
runs, vers = blocks(runlog), blocks(verlog)
vh = subprocess.check_output(['git', '-C', root, 'rev-parse', '--short', 'HEAD']).decode().strip()
rh = subprocess.check_output(['git', '-C', '/repo', 'rev-parse', '--short', 'HEAD']).decode().strip()
for p, out in runs.items():
    d = os.path.join(root, 'seeded', '%s-%s-m1' % (p, tag))
    if not os.path.isdir(d) or '[%s] rc=' % p not in out:
        continue
    old = {}
    if os.path.exists(os.path.join(d, 'meta.json')):
        old = json.load(open(os.path.join(d, 'meta.json')))
    notes = open(os.path.join(d, 'notes.md')).read() if os.path.exists(os.path.join(d, 'notes.md')) else ''
    confirmed = 'RESULT: confirmed' in vers.get(p, '')
    meta = {"breaks_property": p, "source": "independent sub-agent given only the property text and a scratch worktree",
            "needs_to_manifest": notes[:1800],
            "confirmed": ("tools/seedverify.sh: applies at /repo HEAD, compiles, existing test suite results identical, demo fails with the change and passes without" if confirmed else "NOT confirmed: " + vers.get(p, 'no verify output')[-300:]),
            "checks_run": "tools/seedrun.sh (quick tier, default VERIF_SEED): " + p,
            "caught_by": [p] if '[%s] rc=1' % p in out else [], "check_output": out[:900],
            "evaluated_at": "verif %s (+ working tree) / repo %s" % (vh, rh)}
    for k in ('first_result',):
        if k in old:
            meta[k] = old[k]
    json.dump(meta, open(os.path.join(d, 'meta.json'), 'w'), indent=1, ensure_ascii=False)
    print(p, meta['caught_by'], 'confirmed' if confirmed else 'NOT CONFIRMED')
