#!/usr/bin/env bash
# tools/seedrerun.sh [name...] : run the kept seeded changes (/verif/seeded/<name>/patch.diff) again through the
# checks listed in their meta.json and refresh caught_by / check_output there. TIER=thorough for the thorough tier
# (recorded separately as caught_by_thorough). The tree under test is a scratch worktree (see seedrun.sh).
set -u
cd "$(dirname "$(readlink -f "$0")")/.." || exit 2
names=("$@"); [ ${#names[@]} -eq 0 ] && names=($(ls seeded))
for name in "${names[@]}"; do
  d=seeded/$name; [ -f "$d/patch.diff" ] || continue
  props=$(python3 -c "
import json
m=json.load(open('$d/meta.json'))
c=m.get('caught_by') or []
c=c.split() if isinstance(c,str) else c
t=m.get('caught_by_thorough') or []
out=[m['breaks_property']]+[x for x in c+t if x!=m['breaks_property']]
seen=[]
[seen.append(x) for x in out if x not in seen]
print(' '.join(seen))")
  r=$(tools/seedrun.sh "$d/patch.diff" $props 2>&1 | grep -v WARNING)
  caught=$(echo "$r" | grep -E "^\[C[0-9]+\] rc=1" | sed 's/\] .*//; s/\[//' | tr '\n' ' ')
  SEED_OUT="$r" SEED_AT="verif $(git rev-parse --short HEAD) / repo $(git -C /repo rev-parse --short HEAD)" python3 - "$d/meta.json" "${TIER:-quick}" "$caught" <<PY
import json,sys,os
f,tier,caught=sys.argv[1],sys.argv[2],sys.argv[3]
m=json.load(open(f))
if tier=='quick':
    m['caught_by']=caught.split(); m['check_output']=os.environ.get('SEED_OUT',''); m['evaluated_at']=os.environ.get('SEED_AT','')
else:
    m['caught_by_thorough']=caught.split(); m['check_output_thorough']=os.environ.get('SEED_OUT','')
json.dump(m,open(f,'w'),indent=1)
PY
  echo ">>> $name (${TIER:-quick}) caught_by: ${caught:-NONE}"
done
echo ALLDONE
