#!/usr/bin/env python3
"""Regenerates /verif/MANIFEST.json from the table below (kept next to the checks so it stays current)."""
import json, sys

ALL = ["C%02d" % i for i in range(1, 21)]

# id -> (level category, technique, level text, level note, design ref)
CLAIMED = {
 "C01": ("exploration", "deterministic simulation: seeded lifecycle histories x 96 specs x hash keyings, lockstep reference model, failure-atomicity oracle, delta-debugged replay files",
         "Seeded search over mutation histories (every GraphSpecs combination stratified, batches built to fail at a chosen element, names whose sort order differs from insertion order), each under 2 simulated hash keyings; after every operation the outcome kind, the full observable state and failure atomicity are compared with an independent reference model. A clean run is evidence over ~3e5 (quick) / 6e6 (thorough) histories, not a proof; the simulator contributes exact replay (explicit op list + keying), minimisation and hang containment.",
         "Trusted: the reference model (DESIGN.md App. A), std/quick-xml/rand; bounds: <= 8 names, <= 40 ops.", "DESIGN.md §4 C01"),
}

NOT_YET = "check not built yet (work in progress this session; will be claimed once its check exists)"
NA = {
 "C16": "pure function of (n, p, directed, seed): no schedule, hash-order, clock, I/O or fault dimension reaches the anchored code; deciding it needs Monte-Carlo input testing, which would be switching technique (DESIGN.md §5)",
}

def main():
    checks = []
    for pid in ALL:
        if pid not in CLAIMED: continue
        cat, tech, text, note, ref = CLAIMED[pid]
        checks.append({
            "property_id": pid,
            "quick_cmd": "./check %s quick" % pid,
            "thorough_cmd": "./check %s thorough" % pid,
            "evidence_file": "/verif/evidence/%s.json" % pid,
            "replay_cmd_template": "./check --replay {path}",
            "engine": "graphsim",
            "level_claimed": {"category": cat, "text": text, "design_ref": ref},
            "level_note": note,
            "technique": tech,
        })
    na = []
    for pid in ALL:
        if pid in CLAIMED: continue
        na.append({"property_id": pid, "reason": NA.get(pid, NOT_YET)})
    m = {
        "version": 1,
        "setup_cmd": "./check --build",
        "hooks": {
            "guard": "--cfg graphrs_verif",
            "enable": "RUSTFLAGS='--cfg graphrs_verif' (set by ./check for the preferred build flavour; the harness also builds and runs without it)",
            "baseline_off_cmd": "cd /repo && cargo test --workspace --no-fail-fast --offline",
            "source_commits": HOOK_COMMITS,
            "add_only": True,
        },
        "engines": [
            {"name": "graphsim", "path": "/verif/sim", "serves_properties": sorted(CLAIMED), "kind_free_text": "deterministic simulator: seeded PRNG -> workload, hash keying (interposed getrandom, fresh thread per run), simulated rayon schedule (simrayon stub patched in), step clock (counting allocator), fault injection; supervisor + 16 worker processes; replay + delta-debugging minimiser"},
            {"name": "simrayon", "path": "/verif/simrayon", "serves_properties": ["C04","C05","C06","C07","C08","C17"], "kind_free_text": "crate named rayon: single-threaded seeded simulation of rayon's split tree / work stealing / ordered collect"},
        ],
        "checks": checks,
        "not_applicable": na,
        "notes": "All checks: exit 0 held / 1 violation (VIOLATION line + replay file under /verif/replays) / 2 harness error. VERIF_SEED shifts the whole sample (default 20261002). Known findings: /verif/known_findings.json.",
    }
    json.dump(m, open("/verif/MANIFEST.json", "w"), indent=1)
    print("MANIFEST.json: %d claimed, %d not applicable" % (len(checks), len(na)))

HOOK_COMMITS = []
if __name__ == "__main__":
    main()
