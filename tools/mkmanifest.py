#!/usr/bin/env python3
"""Regenerates /verif/MANIFEST.json from the table below (kept next to the checks so it stays current)."""
import json, sys

ALL = ["C%02d" % i for i in range(1, 21)]

# id -> (level category, technique, level text, level note, design ref)
CLAIMED = {
 "C01": ("exploration", "deterministic simulation: seeded lifecycle histories x 96 specs x hash keyings, lockstep reference model, failure-atomicity oracle (rejected call = injected fault, failing batch = torn write)",
         "Seeded search over mutation histories (every GraphSpecs combination stratified, batches built to fail at a chosen element, names whose sort order differs from insertion order), each under 2 simulated hash keyings; after every operation the outcome kind, the full observable state and failure atomicity are compared with an independent reference model. Evidence over ~3e5 (quick) / 6e6 (thorough) histories, not a proof; the simulator contributes exact replay (explicit case + keying/schedule), delta-debugging minimisation, hang containment by the step clock and coverage accounting.",
         "Trusted: the reference model (DESIGN.md App. A), std, rustc; bounds: <= 8 names, <= 40 ops.", "DESIGN.md §4 C01"),
 "C02": ("exploration", "deterministic simulation: lifecycle histories under seeded hash keyings, every read API cross-checked after every step against the node list / edge multiset; hook white-box comparison of the 12 private indexes",
         "After every step of seeded histories (all 96 specs, derived-graph ops included) every query is asked for every ordered pair of the name universe plus absent names, every node, random node sets, both adjacency maps and BFS, and compared with the answer derived from get_all_nodes/get_all_edges; with --cfg graphrs_verif the private indexes are compared with one another. Sampled (6e4 / 1.2e6 histories); the simulator contributes exact replay (explicit case + keying/schedule), delta-debugging minimisation, hang containment by the step clock and coverage accounting.",
         "Trusted: the derivation of each API's expected answer (DESIGN.md App. B). Leniencies: hash-ordered results compared as multisets; a call wrong for two reasons may report either.", "DESIGN.md §4 C02"),
 "C03": ("exploration", "deterministic simulation: histories biased to ignored / replaced / parallel duplicates, black-box Dijkstra + centralities vs an oracle built from get_all_edges(), hook white-box check of successors_vec / predecessors_vec",
         "Seeded histories that add second edges with smaller / equal / larger weight under KeepFirst / KeepLast / multi-edge; after every step the hop-1 sets, weighted single-source distances, weighted closeness and betweenness equal the definitions evaluated on the real graph's own edge list, and (hook) the traversal lists hold exactly (neighbour, min stored weight). Sampled (8e4 / 1.5e6 histories); the simulator contributes exact replay (explicit case + keying/schedule), delta-debugging minimisation, hang containment by the step clock and coverage accounting.",
         "Trusted: Floyd-Warshall oracle; weighted betweenness compared only under exactly summable weights.", "DESIGN.md §4 C03"),
 "C04": ("exploration", "deterministic simulation: seeded graphs x simulated rayon pools (1-16 workers, seeded split tree / steals / leaf order) x hash keying, results vs Floyd-Warshall + path-count + explicit path enumeration oracle",
         "single_source / multi_source / all_pairs on graphs of every kind (n <= 60, and dense graphs of up to 12 500 edges) under simulated pools: reachable set, exact distances, path validity, number of paths = sigma(s,t), path set = enumeration for n <= 9. The simulator-specific dimension is thin here (schedule and keying are part of the replay file); most of the deciding power is the seeded workload plus the reference oracle. Sampled.",
         "Trusted: the distance oracle. Path sets compared exactly under exactly summable positive weights / hop counts; under inexactly summable weights the path count per pair must fit the accumulated-float reading or the 1e-9 reading of \"shortest\" (DESIGN.md App. E 16).", "DESIGN.md §4 C04"),
 "C05": ("exploration", "deterministic simulation: seeded graphs under simulated rayon pools and hash keyings, betweenness vs its definition from Floyd-Warshall distances and path counts",
         "betweenness_centrality(weighted x normalized) on graphs of every kind (n <= 45, diamond chains with > 2^64 shortest paths, dense graphs of up to 12 500 edges) vs the definition at 1e-9, one entry per node; simulated pool of 1-16 workers above 20 nodes. Thin simulator dimension (schedule + keying in the replay file); sampled.",
         "Trusted: the definition oracle (pair-sum definition; Brandes accumulation over the accumulated-float fixpoint for inexactly summable weights, where the whole vector must match that reading or the 1e-9 reading).", "DESIGN.md §4 C05"),
 "C06": ("exploration", "deterministic simulation: seeded graphs under simulated rayon pools and hash keyings, closeness vs its definition from incoming Floyd-Warshall distances",
         "closeness_centrality(weighted x wf_improved) on graphs of every kind (n <= 50) vs the definition at 1e-9; simulated pool above 20 nodes. Thin simulator dimension; sampled.",
         "Trusted: the definition oracle.", "DESIGN.md §4 C06"),
 "C07": ("exploration", "deterministic simulation: seeded search over rayon schedules (simulated work-stealing scheduler patched in for rayon: pool size, split tree, steals, leaf order, caller-installed nested pools) with bit-exact comparison against the single-threaded run; plus real-rayon engines (native pools, concurrent readers; Miri seeded scheduler + race detector in the thorough tier)",
         "The property the technique is for: each of the five functions is evaluated with one worker and under 6-9 simulated schedules per case (2.1e4 schedules quick, 3.6e5 thorough; graphs of 21-60 nodes, 1 in 60 with 1 030-1 300 nodes, 1 in 400 dense with up to 12 500 edges); every key set, distance, path list and centrality must be bit-identical. Any violation found by the stub is a schedule real rayon can produce. Supporting engines run the real rayon: native pools of 1-16 threads with concurrent readers on one shared graph, and (thorough) Miri with seeded preemptive scheduling and data-race detection.",
         "The stub executes whole closures; a data race inside two overlapping closures is invisible to it (graphrs has no unsafe / interior mutability: scanned every run). The native engine's schedule is not controlled (cross-check only).", "DESIGN.md §2.2, §4 C07"),
 "C08": ("exploration", "deterministic simulation: metamorphic relations of the shortest-path entry points and options (implementation against itself), serial single_source vs simulated-parallel all_pairs / multi_source",
         "all_pairs = multi_source = single_source; every combination of target x cutoff x first_only x with_paths restricts the unrestricted answer without changing values; fast path vs full algorithm; symmetry; triangle inequality; get_all_shortest_paths_involving. No oracle error possible (relations only). Thin simulator dimension (the parallel path runs under a simulated pool); sampled.",
         "first_only path choice unspecified: only membership is required.", "DESIGN.md §4 C08"),
 "C09": ("exploration", "deterministic simulation: lifecycle histories under seeded hash keyings, conservation identities (handshake, in+out, counts, density, adjacency matrix) monitored after every step",
         "After every step of seeded histories over all 96 specs: number_of_nodes/edges, size, per-node and all-node degree variants, handshake identities, degree_centrality, density, sparse adjacency matrix by position vs the edge multiset of the real graph. Sampled (1.2e5 / 2.4e6 histories); the simulator contributes exact replay (explicit case + keying/schedule), delta-debugging minimisation, hang containment by the step clock and coverage accounting.",
         "Weighted quantities at 1e-9.", "DESIGN.md §4 C09"),
 "C10": ("exploration", "deterministic simulation: each graph analysed under 8-16 seeded hash keyings (the SCC routine's visit order follows HashSet iteration), partitions vs the Warshall closure",
         "Component functions on graphs with nested SCCs, long cycles, many small components (n <= 40): set partitions equal to the closure classes, counts, node_connected_component, BFS, bfs_equal_size_partitions, WrongMethod on the other kind; H is the searched dimension (keying in the replay file). Sampled.",
         "bfs_equal_size_partitions: only k parts, exact cover, size <= floor(n/k)+1.", "DESIGN.md §4 C10"),
 "C11": ("exploration", "deterministic simulation: seeded single-edge graphs under several hash keyings (hash-ordered float sums), clustering family vs the definitions, subset consistency, kind refusal",
         "clustering (undirected / Fagiolo / Onnela), average_clustering, triangles, transitivity, generalized_degree, square_clustering vs definitions at 1e-9, coefficients in [0,1], proper subsets, WrongMethod for multi-edge / directed. Thin simulator dimension; sampled.",
         "Either max-weight convention accepted when a self-loop is heaviest.", "DESIGN.md §4 C11"),
 "C12": ("exploration", "deterministic simulation: seeded graphs and mutated node-set families (incl. the cancelling duplicate+omission) under 2 hash keyings, is_partition / modularity vs the set definition and Newman's formula",
         "is_partition vs the set-theoretic definition on partitions and 8 kinds of non-partition; modularity (weighted/unweighted, resolutions) vs Newman's formula from the stored edge list at 1e-9, NotAPartition otherwise. Thin simulator dimension; sampled.",
         "Families with empty sets are partitions iff their non-empty sets are.", "DESIGN.md §4 C12"),
 "C13": ("exploration", "deterministic simulation: Louvain under a logical step clock (allocation budget = bounded-liveness check, replayable because the count is a function of the seed) x 4-8 hash keyings x seeds; nestedness and modularity monotonicity vs the harness's own Newman formula",
         "Every louvain call on graphs of all kinds (cycles, paths, stars, cliques, bipartite, unions, rings of cliques, hubs with nearly tied alternatives; n <= 40, rings of 60-120 nodes, dense graphs of up to 12 500 edges; weights incl. 1e-17-scale and overflowing sums) runs under a step budget: exceeding it is reported as non-termination with a replay file; Ok results are checked for partition, nesting, non-decreasing modularity, communities = last level. Termination cannot be proven by sampling; the budget makes it a bounded, replayable check.",
         "Budget 3e5 + 3e5 (n+m) allocations; max observed / budget recorded in the evidence.", "DESIGN.md §2.3, §4 C13"),
 "C14": ("exploration", "deterministic simulation: seeded graphs with adversarial Unicode names and f64 bit patterns, write -> read under 3-5 hash keyings (document edge order is hash order), string and file variants",
         "Round trip of graphs of every kind: names in order, directedness, edge multiset with bit-identical weights, parallel-edge order, file = string document. Thin simulator dimension (keying); the file system is real and fault-free. Sampled (4e4 / 1e6 graphs).",
         "Control characters excluded (as the property says).", "DESIGN.md §4 C14"),
 "C15": ("exploration", "deterministic simulation: lifecycle histories in which derived-graph operations are applied at random points and the history continues on the result, lockstep model, source-unchanged and involution oracles",
         "get_subgraph / reverse / set_all_edge_weights / to_single_edges on graphs produced by duplicate policies, re-added nodes and restarts: outcome, result vs the model's definition, result specs, source digest unchanged, reverse twice = identity, C02/C03 oracles on the result, C01 oracles on the continued history; 2 keyings. Sampled (1e5 / 2e6 histories); the simulator contributes exact replay (explicit case + keying/schedule), delta-debugging minimisation, hang containment by the step clock and coverage accounting.",
         "Edge attributes of to_single_edges results unspecified; summed weights at 1e-9.", "DESIGN.md §4 C15"),
 "C17": ("exploration", "deterministic simulation: the same seeded call replayed under 8-24 environments (hash keyings x simulated pool sizes), twice per thread, outputs compared; cross-process repetition via the determinism proof",
         "The second property the technique is for: for a fixed (graph, arguments, Some(seed)) the environment is searched; Louvain results compared as lists of sets of sets, generator results as (nodes, edges), non-randomised algorithms exactly / at 1e-9. One recorded finding (rounding of hash-ordered sums on inexactly summable weights).",
         "seed=None paths out of scope (raw-syscall entropy). Known finding listed in known_findings.json.", "DESIGN.md §4 C17"),
 "C18": ("exploration", "deterministic simulation: seeded graphs under 4-8 hash keyings (the implementation sums in hash order), post-condition and fixed-point bound, reference iteration deciding certain / impossible / too-close convergence",
         "Ok(x): one entry per node, non-negative, unit norm, one further step moves x by at most the tolerance-derived bound; exhaustion judged against a fixed-order reference iteration with a too-close band. Thin simulator dimension; sampled.",
         "The fixed-point bound is derived from the stopping rule (sound, not tight).", "DESIGN.md §4 C18"),
 "C19": ("fault_enumeration", "fault injection over stored bytes: exhaustive single-point corruptions (truncate / delete / duplicate / bit flip / byte replace) of fixed base documents + seeded multi-fault corruption of written and grammar-generated documents; totality under catch_unwind + step clock; Ok results validated by an independent quick-xml walk through the C01 model",
         "Every case is one explicit corrupted document. The single-point sub-space over 4 base documents is enumerated exhaustively (~1.9e4 documents); the rest samples 0-4 faults on generated documents plus resource bombs. The call must return (no unwind, no worker death, within the step budget); a returned graph must contain exactly the document's node/edge elements subject to the specs and its declared directedness.",
         "quick-xml is the trusted base for document structure; Err is always acceptable; namespace-prefixed documents only checked for totality.", "DESIGN.md §4 C19"),
 "C20": ("exploration", "deterministic simulation: programs x inputs sweep - a registry of every public function over enumerated degenerate shapes x 8 kinds x weights, existing and absent names, under the panic monitor (overflow checks on) and the step clock, 2 hash keyings",
         "Every public function that takes a graph is called on 12 degenerate shapes x 8 kinds x weighted/unweighted (enumerated) and on small random graphs, with every existing name and, where an error channel exists, an absent name: it must return; absent names and declared kind restrictions must use the error channel. Thin simulator dimension (hang containment + keying); the registry is maintained by hand and public functions it misses are listed in the evidence.",
         "Error kinds are not judged, only that the channel is used.", "DESIGN.md §4 C20"),
}

NOT_YET = "check not built yet (work in progress this session; will be claimed once its check exists)"
NA = {
 "C16": "pure function of (n, p, directed, seed): no schedule, hash-order, clock, I/O or fault dimension reaches the anchored code; deciding it needs Monte-Carlo input testing, which would be switching technique (DESIGN.md §5)",
}

def main():
    checks = []
    for pid in ALL:
        if pid not in CLAIMED: continue
        cat, tech, text, note, ref = CLAIMED[pid]
        checks.append({
            "property_id": pid,
            "quick_cmd": "./check %s quick" % pid,
            "thorough_cmd": "./check %s thorough" % pid,
            "evidence_file": "/verif/evidence/%s.json" % pid,
            "replay_cmd_template": "./check --replay {path}",
            "engine": "graphsim",
            "level_claimed": {"category": cat, "text": text, "design_ref": ref},
            "level_note": note,
            "technique": tech,
        })
    na = []
    for pid in ALL:
        if pid in CLAIMED: continue
        na.append({"property_id": pid, "reason": NA.get(pid, NOT_YET)})
    m = {
        "version": 1,
        "setup_cmd": "./check --build",
        "hooks": {
            "guard": "--cfg graphrs_verif",
            "enable": "RUSTFLAGS='--cfg graphrs_verif' (set by ./check for the preferred build flavour; the harness also builds and runs without it)",
            "baseline_off_cmd": "cd /repo && cargo test --workspace --no-fail-fast --offline",
            "source_commits": HOOK_COMMITS,
            "add_only": True,
        },
        "engines": [
            {"name": "graphsim", "path": "/verif/sim", "serves_properties": sorted(CLAIMED), "kind_free_text": "deterministic simulator: seeded PRNG -> workload, hash keying (interposed getrandom, fresh thread per run), simulated rayon schedule (simrayon stub patched in), step clock (counting allocator), fault injection; supervisor + 16 worker processes; replay + delta-debugging minimiser"},
            {"name": "simrayon", "path": "/verif/simrayon", "serves_properties": ["C04","C05","C06","C07","C08","C17"], "kind_free_text": "crate named rayon: single-threaded seeded simulation of rayon's split tree / work stealing / ordered collect"},
        ],
        "checks": checks,
        "not_applicable": na,
        "notes": "Every run thread is fresh; what ran on a thread before the judged calls is therefore generated explicitly (failing and early-stopping searches, a battery of valid calls on a sibling graph, queries in the middle of the history, a rejected load into another graph, a failed read) and counter wrap-around is probed at 2^8 / 2^15 / 2^16 calls (DESIGN.md §0.2). Thorough tier of every check except C07 first runs a quarter of the quick sample against the real rayon (OS threads; runtime observation, cross-check only, summary embedded in the evidence), then the deciding simulated run. All checks: exit 0 held / 1 violation (VIOLATION line + replay file under /verif/replays) / 2 harness error. VERIF_SEED shifts the whole sample (default 20261002). Known findings: /verif/known_findings.json.",
    }
    json.dump(m, open("/verif/MANIFEST.json", "w"), indent=1)
    print("MANIFEST.json: %d claimed, %d not applicable" % (len(checks), len(na)))

HOOK_COMMITS = ["23fe853"]
if __name__ == "__main__":
    main()
