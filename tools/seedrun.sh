#!/usr/bin/env bash
# tools/seedrun.sh <patch.diff> <PROPERTY-ID>... : apply a seeded change to a scratch worktree of /repo's HEAD
# (outside /repo and /verif), run the quick checks of the given properties against that tree (VERIF_REPO), and
# reset the worktree. /repo itself and the committed evidence are not touched; output goes to target/alt-out.
# (Equivalent to `git -C /repo apply <patch>; ./check ...; git -C /repo checkout -- .`, which is what it did
# before the tree under test became configurable.)
set -u
P=$(readlink -f "$1"); shift
WT=${SEED_WT:-/tmp/wt/mut}
cd "$(dirname "$(readlink -f "$0")")/.." || exit 2
if [ ! -d "$WT" ]; then git -C /repo worktree add -q "$WT" HEAD || exit 2; fi
git -C "$WT" checkout -q --detach "$(git -C /repo rev-parse HEAD)" 2>/dev/null
git -C "$WT" checkout -q -- . ; git -C "$WT" clean -fdq -e target
git -C "$WT" apply "$P" || { echo "patch does not apply"; exit 2; }
trap 'git -C "$WT" checkout -q -- .' EXIT
for id in "$@"; do
  out=$(VERIF_REPO="$WT" ./check "$id" "${TIER:-quick}" 2>&1); rc=$?
  n=$(echo "$out" | grep -c "^VIOLATION")
  echo "[$id] rc=$rc violations=$n $(echo "$out" | grep -E '^graphsim: [0-9]' | tail -1 | sed 's/graphsim: //')"
  echo "$out" | grep -A2 "^VIOLATION" | grep -E "oracle=|^  [a-zA-Z]" | head -4 | cut -c1-260
done
