#!/usr/bin/env bash
# tools/seedrun.sh <patch.diff> <PROPERTY-ID>... : apply a seeded change to /repo, run the quick checks of the
# given properties, undo the change straight afterwards. Prints which checks raised a VIOLATION.
set -u
P=$(readlink -f "$1"); shift
cd /verif
if [ -n "$(git -C /repo status --porcelain)" ]; then echo "/repo is not clean"; exit 2; fi
git -C /repo apply "$P" || { echo "patch does not apply to /repo"; exit 2; }
trap 'git -C /repo checkout -- . ' EXIT
for id in "$@"; do
  out=$(./check "$id" "${TIER:-quick}" 2>&1); rc=$?
  n=$(echo "$out" | grep -c "^VIOLATION")
  echo "[$id] rc=$rc violations=$n $(echo "$out" | grep -E '^graphsim: [0-9]' | tail -1 | sed 's/graphsim: //')"
  echo "$out" | grep -A2 "^VIOLATION" | grep -E "oracle=|^  [a-zA-Z]" | head -4 | cut -c1-260
done
