#!/usr/bin/env bash
# no-false-alarm sweep: every quick check under several VERIF_SEEDs on the unchanged tree must exit 0
cd "$(dirname "$0")/.." || exit 2
SEEDS="${*:-1 2 3 5 8 13 21 34 55 89 144 233 377 610 987 1597 2584 4181 6765 10946}"
bad=0
for s in $SEEDS; do
  for p in $(python3 -c "import json;print(' '.join(c['property_id'] for c in json.load(open('MANIFEST.json'))['checks']))"); do
    out=$(VERIF_SEED=$s ./check "$p" quick 2>&1); rc=$?
    if [ $rc -ne 0 ]; then bad=1; echo "SEED $s $p rc=$rc"; echo "$out" | grep -E "^(VIOLATION|HARNESS|  oracle|  [a-z])" | head -6 | cut -c1-300; fi
  done
  echo "seed $s done"
done
[ $bad -eq 0 ] && echo "no alarm under any seed" 
exit $bad
