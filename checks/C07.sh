#!/usr/bin/env bash
# C07 driver: three engines (DESIGN.md §2.2).
#  (c) native rayon pools + concurrent readers  (real code, schedule not controlled: cross-check)
#  (b) Miri over the real rayon, seeded scheduler + data-race detector          (thorough tier only)
#  (a) simrayon: seeded search over simulated schedules                          (the deciding engine)
BIN="$1"; TIER="$2"; SEED="$3"
V="$(cd "$(dirname "$0")/.." && pwd)"
cd "$V" || exit 2
rc=0
worst() { if [ "$1" -eq 1 ]; then rc=1; elif [ "$1" -ne 0 ] && [ "$rc" -eq 0 ]; then rc=2; fi; }
rm -f "$V/target/c07-native.json" "$V/target/c07-miri.json"

# ---- engine (c)
NDIR="$V/simnative"; NT="$V/target/native-plain"
if [ "${VERIF_REPO:-/repo}" != /repo ]; then
  R="$VERIF_REPO"; NDIR="$V/target/alt-manifests/simnative"; NT="$V/target/alt-native-plain"; mkdir -p "$NDIR/.cargo"
  sed -e "s#path = \"/repo\"#path = \"$R\"#" -e "s#path = \"../sim/src/main.rs\"#path = \"$V/sim/src/main.rs\"#" "$V/simnative/Cargo.toml" >"$NDIR/Cargo.toml"
  cp "$V/simnative/Cargo.lock" "$NDIR/Cargo.lock" 2>/dev/null; printf '[net]\noffline = true\n' >"$NDIR/.cargo/config.toml"
fi
if [ -d "$NDIR" ] && ( cd "$NDIR" && CARGO_TARGET_DIR=$NT cargo build --release --offline >"$V/target/build-native-plain.log" 2>&1 ); then
  "$NT/release/graphsim-native" native-c07 --tier "$TIER" --seed "$SEED" --verif-dir "$V"
  worst $?
else
  echo "check: the native (real rayon) engine does not build; see target/build-native-plain.log" >&2
fi

# ---- engine (b)
if [ "$TIER" = thorough ]; then
  N=${VERIF_MIRI_SEEDS:-32}
  mkdir -p "$V/target/miri-logs"; rm -f "$V/target/miri-logs"/*.log
  # build once, then run the seeds in parallel (each interpreter is single-threaded)
  ( cd "$V/miri" && MIRIFLAGS="-Zmiri-tree-borrows -Zmiri-ignore-leaks -Zmiri-permissive-provenance" CARGO_TARGET_DIR="$V/target/miri" cargo +nightly miri run --offline -- 0 1 >"$V/target/miri-logs/build.log" 2>&1 ) || true
  t0=$(date +%s)
  seq 1 "$N" | V="$V" xargs -P 16 -I{} sh -c 'cd "$V/miri" && th=$(( {} % 3 + 2 )); MIRIFLAGS="-Zmiri-seed={} -Zmiri-preemption-rate=0.1 -Zmiri-tree-borrows -Zmiri-ignore-leaks -Zmiri-permissive-provenance" CARGO_TARGET_DIR="$V/target/miri" timeout 2400 cargo +nightly miri run --offline -- {} $th >"$V/target/miri-logs/{}.log" 2>&1; echo "exit=$?" >>"$V/target/miri-logs/{}.log"'
  t1=$(date +%s)
  ok=$(grep -l "C07MIRI OK" "$V"/target/miri-logs/[0-9]*.log 2>/dev/null | wc -l)
  bad=""
  for f in "$V"/target/miri-logs/[0-9]*.log; do
    if ! grep -q "C07MIRI OK" "$f"; then bad="$bad $(basename "$f" .log)"; fi
  done
  printf '{"engine":"Miri over the real rayon (seeded preemptive scheduler, tree borrows, data-race detection)","seeds":%s,"seeds_ok":%s,"workers":"2,3,4 by seed","failed_seeds":"%s","wall_s":%s}\n' "$N" "$ok" "$bad" "$((t1-t0))" >"$V/target/c07-miri.json"
  if [ -n "$bad" ]; then
    for s in $bad; do
      if grep -qE "C07MIRI MISMATCH|Undefined Behavior|Data race|data race" "$V/target/miri-logs/$s.log"; then
        r="$V/replays/C07-miri-$s.txt"; mkdir -p "$V/replays"
        { echo "cd /verif/miri && MIRIFLAGS=\"-Zmiri-seed=$s -Zmiri-preemption-rate=0.1 -Zmiri-tree-borrows -Zmiri-ignore-leaks -Zmiri-permissive-provenance\" cargo +nightly miri run --offline -- $s $(( s % 3 + 2 ))"; tail -40 "$V/target/miri-logs/$s.log"; } >"$r"
        echo "VIOLATION property=C07 replay=$r"
        worst 1
      else
        echo "check: Miri seed $s did not finish cleanly (timeout or tool error); see target/miri-logs/$s.log" >&2
      fi
    done
  else
    echo "C07 Miri engine: $ok of $N seeds OK (real rayon, seeded scheduler, no data race, results equal to single-threaded) in $((t1-t0))s"
  fi
fi

# ---- engine (a): writes the evidence file (embedding the summaries above)
"$BIN" supervise --prop C07 --tier "$TIER" --seed "$SEED" --verif-dir "$V"
worst $?
exit $rc
